#!/bin/bash
# usage: tools/run_all.sh [quick|thorough] [ids...]   - runs the checks on /repo as it is, refreshing evidence/
TIER=${1:-quick}; shift
IDS=${@:-C01 C02 C03 C04 C05 C06 C07 C08 C09 C10 C11 C12 C13 C14 C15 C16 C17 C18 C19 C20}
cd /verif
git -C /repo diff --quiet || echo "WARNING: /repo working tree differs from HEAD"
for c in $IDS; do
  s=$(date +%s)
  out=$(timeout 7200 /venv/bin/python -m checks.$c --tier $TIER 2>&1); rc=$?
  e=$(( $(date +%s) - s ))
  echo "$c rc=$rc ${e}s viol_lines=$(echo "$out" | grep -c '^VIOLATION') known=$(echo "$out" | grep -c '^KNOWN-FINDING') :: $(echo "$out" | grep '^\[C' | tail -1 | cut -c1-110)"
  [ $rc -ne 0 ] && echo "$out" | grep -v '^\[' | tail -5
done
