#!/bin/bash
# usage: tools/seedrun2.sh <seed-name> <check-id>...
# like seedrun.sh, but applies the seeded patch to a scratch worktree of /repo (under /tmp) and points the checks at it with
# FJV_REPO, so /repo itself is never touched (thorough runs on /repo can go on meanwhile; several seeds can run in parallel).
NAME=$1; shift
P=/verif/seeded/$NAME/patch.diff
WT=/tmp/sr-$NAME
git -C /repo worktree remove --force $WT 2>/dev/null; rm -rf $WT
git -C /repo worktree add --detach -f $WT ${BASE:-HEAD} >/dev/null 2>&1 || { echo "cannot create worktree $WT"; exit 9; }
( cd $WT && { git apply "$P" 2>/dev/null || git apply -3 "$P" 2>/dev/null || patch -p1 -s -F3 < "$P"; } ) || { echo "PATCH $NAME DOES NOT APPLY"; git -C /repo worktree remove --force $WT; exit 8; }
mkdir -p $WT/.evidence
for c in "$@"; do
  out=$(cd /verif && FJV_REPO=$WT FJV_EVIDENCE_DIR=$WT/.evidence timeout 3000 /venv/bin/python -m checks.$c --tier ${TIER:-quick} 2>&1); rc=$?
  nv=$(echo "$out" | grep -c '^VIOLATION')
  echo "seed=$NAME check=$c rc=$rc violation_lines=$nv :: $(echo "$out" | grep '^\[' | tail -1 | cut -c1-160)"
  echo "$out" | grep -A1 '^VIOLATION' | head -4
done
git -C /repo worktree remove --force $WT; git -C /repo worktree prune
