#!/bin/bash
# usage: tools/confirm_seed.sh <worktree> <seed-name>
# confirms independently: with the patch the pinned tests pass and the demo fails; without it the demo passes.
# on success stores /verif/seeded/<seed-name>/{patch.diff,demo.py,meta.json,confirm.log}
set -u
D=$1; NAME=$2; OUT=/verif/seeded/$NAME; LOG=$(mktemp)
cd "$D" || exit 9
ischange_c=$(grep -c '_fjcore.c' SEED/patch.diff)
build() { if [ "$ischange_c" != "0" ]; then /venv/bin/python build_fjcore.py >/dev/null 2>&1 || echo "BUILD FAILED"; fi; }
{
echo "== worktree $D seed $NAME ($(date -u))"
git stash -q 2>/dev/null; git stash drop -q 2>/dev/null   # start from a clean tree (SEED/ is untracked)
git checkout -q -- . ; git apply SEED/patch.diff || { echo "PATCH DOES NOT APPLY"; exit 8; }
build
echo "-- tests with patch:"; /venv/bin/python -m pytest -q -p no:cacheprovider --timeout=900 2>&1 | tail -1
echo "-- demo with patch:"; timeout 600 /venv/bin/python SEED/demo.py 2>&1 | tail -5; echo "rc_with=${PIPESTATUS[0]}"
git apply -R SEED/patch.diff; build
echo "-- demo without patch:"; timeout 600 /venv/bin/python SEED/demo.py 2>&1 | tail -3; echo "rc_without=${PIPESTATUS[0]}"
} > "$LOG" 2>&1
cat "$LOG"
if grep -q "455 passed" "$LOG" && grep -q "rc_with=1" "$LOG" && grep -q "rc_without=0" "$LOG"; then
  mkdir -p "$OUT"; cp SEED/patch.diff SEED/demo.py SEED/meta.json "$OUT"/; cp "$LOG" "$OUT"/confirm.log; echo "CONFIRMED -> $OUT"
else echo "NOT CONFIRMED"; fi
rm -f "$LOG"
