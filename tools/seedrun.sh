#!/bin/bash
# usage: tools/seedrun.sh <seed-name> <check-id>...   (applies seeded/<name>/patch.diff to /repo, runs quick checks, restores)
NAME=$1; shift
P=/verif/seeded/$NAME/patch.diff
git -C /repo diff --quiet || { echo "/repo is dirty"; exit 9; }
git -C /repo apply "$P" 2>/dev/null || git -C /repo apply -3 "$P" 2>/dev/null || patch -d /repo -p1 -s -F3 < "$P" || { echo "PATCH $NAME DOES NOT APPLY"; git -C /repo checkout -- .; exit 8; }
for c in "$@"; do
  out=$(cd /verif && timeout 1500 /venv/bin/python -m checks.$c --tier ${TIER:-quick} 2>&1); rc=$?
  nv=$(echo "$out" | grep -c '^VIOLATION')
  echo "seed=$NAME check=$c rc=$rc violation_lines=$nv :: $(echo "$out" | grep '^\[' | tail -1 | cut -c1-160)"
  echo "$out" | grep -A1 '^VIOLATION' | head -4
done
git -C /repo reset -q; git -C /repo checkout -- . ; git -C /repo status --short | grep -v _fjcore.abi3.so
find /repo -name '*.orig' -newer "$P" -delete 2>/dev/null; find /repo -name '*.rej' -delete 2>/dev/null
