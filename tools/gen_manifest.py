"""Regenerate /verif/MANIFEST.json from the table below (python3 tools/gen_manifest.py)."""
import json
import sys
from pathlib import Path

VERIF = Path(__file__).resolve().parent.parent
PY = '/venv/bin/python'

# id -> (level, technique, text, note, design_ref)
CHECKS = {
 'C01': ('exploration',
         'bounded-exhaustive enumeration of memory images x environment answers on the real engines vs a reference machine',
         'Every image over a symbolic word alphabet (all address classes relative to the op, the IO cells, segment ends, '
         'top of the address space) for several segment layouts, every 0/1/EOF input behaviour within the read bound, on '
         'featured(+trace)/fast/native with and without the last-ops ring at w=8/16/32/64; compared op by op with the '
         'reference machine (ip/flip/jump trace, IO calls, cause, op count, fault address). A coverage statement over a '
         'small scope, which is where per-op boundary bugs live.',
         'Trusts the 100-line reference machine R1 (cross-checked by three independent engines on every case); programs '
         'longer than 6 words / 64 ops are outside the bound.',
         'DESIGN.md section 3 C01'),
 'C07': ('exploration',
         'configuration product (storage knobs x engines) over exhaustively enumerated sparse program families vs a reference machine incl. final memory',
         'Every program of a two-segment family whose far segment sits at page edges, page-cache aliases, the flat-window '
         'edge, 2^40/2^57 and the top of the address space, the w=64 fill-constant family and a slice of the single-segment '
         'images, run under every storage configuration (flat, hybrid windows cut at every word around each boundary, forced '
         'paged, env window, measurement loop, ring lengths 1/2/3/65) and every engine; cause, op count, fault address, IO '
         'calls, last-ops list and the final content of every touched in-segment word must equal the reference machine.',
         'Trusts R1; explicit flat windows are capped at 2^24 words; ops straddling bit 2^64 at w=64 are excluded here '
         '(finding F1, explored by C01).',
         'DESIGN.md section 3 C07'),
}

NOT_YET = {
}


def main():
    props = [json.loads(l)['id'] for l in (VERIF / 'properties.jsonl').read_text().splitlines() if l.strip()]
    checks = []
    for pid in props:
        if pid not in CHECKS:
            continue
        level, technique, text, note, ref = CHECKS[pid]
        checks.append({
            'property_id': pid,
            'quick_cmd': f'cd /verif && {PY} -m checks.{pid} --tier quick',
            'thorough_cmd': f'cd /verif && {PY} -m checks.{pid} --tier thorough',
            'evidence_file': f'/verif/evidence/{pid}.json',
            'replay_cmd_template': f'cd /verif && {PY} -m checks.{pid} --replay {{path}}',
            'engine': 'fjv',
            'level_claimed': {'category': level, 'text': text, 'design_ref': ref},
            'level_note': note,
            'technique': technique,
        })
    na = [{'property_id': pid, 'reason': NOT_YET.get(pid, 'check designed (DESIGN.md section 3) but not built yet in this tree; no claim is made')}
          for pid in props if pid not in CHECKS]
    manifest = {
        'version': 1,
        'setup_cmd': f'cd /verif && {PY} -m fjv.build plain verif asan',
        'hooks': {
            'guard': 'FLIPJUMP_VERIF',
            'enable': 'no hook is compiled into /repo: the checks rebuild flipjump/interpreter/_fjcore.c from the working tree '
                      '(plain / verif wrapper TU / ASan+UBSan) into /verif/.build and inject it as flipjump.interpreter._fjcore; '
                      'python and .fj sources are imported live from /repo',
            'baseline_off_cmd': 'cd /repo && /venv/bin/python -m pytest -ra -q -p no:cacheprovider --timeout=900 --continue-on-collection-errors',
            'source_commits': [],
            'add_only': True,
        },
        'engines': [{
            'name': 'fjv', 'path': '/verif/fjv', 'serves_properties': [c['property_id'] for c in checks],
            'kind_free_text': 'hand-written explicit-state / bounded-exhaustive explorers in Python that drive the real '
                              'flipjump code (assembler, fjm reader/writer, three interpreter engines, debugger, devices, stl) '
                              'and compare with small reference models',
        }],
        'checks': checks,
        'not_applicable': na,
        'notes': 'All checks: cd /verif && /venv/bin/python -m checks.<id> --tier quick|thorough [--replay file]. '
                 'VERIF_SEED rotates deterministic slices only; nothing is sampled. Known genuine defects: known_findings.json.',
    }
    (VERIF / 'MANIFEST.json').write_text(json.dumps(manifest, indent=1) + '\n')
    print('wrote MANIFEST.json with', len(checks), 'checks,', len(na), 'not_applicable')


if __name__ == '__main__':
    main()
