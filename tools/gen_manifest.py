"""Regenerate /verif/MANIFEST.json from the table below (python3 tools/gen_manifest.py)."""
import json
import sys
from pathlib import Path

VERIF = Path(__file__).resolve().parent.parent
PY = '/venv/bin/python'

# id -> (level, technique, text, note, design_ref)
CHECKS = {
 'C01': ('exploration',
         'bounded-exhaustive enumeration of memory images x environment answers on the real engines vs a reference machine',
         'Every image over a symbolic word alphabet (all address classes relative to the op, the IO cells, segment ends, '
         'top of the address space) for several segment layouts (incl. several lazily-zero segments listed in descending address order, chains through 33..131 scattered pages, a far segment crossing a 16K-word page edge, the catalog programs of the repository), every 0/1/EOF input behaviour within the read bound, on '
         'featured(+trace)/fast/native (and the forced page-backed native loop for the layouts with a far segment) with and without the last-ops ring at w=8/16/32/64; compared op by op with the '
         'reference machine (ip/flip/jump trace, IO calls, cause, op count, fault address). A coverage statement over a '
         'small scope, which is where per-op boundary bugs live.',
         'Trusts the 100-line reference machine R1 (cross-checked by three independent engines on every case); programs '
         'longer than 6 words / 64 ops are outside the bound.',
         'DESIGN.md section 3 C01'),
 'C07': ('exploration',
         'configuration product (storage knobs x engines) over exhaustively enumerated sparse program families vs a reference machine incl. final memory',
         'Every program of a two-segment family whose far segment sits at page edges, page-cache aliases, the flat-window '
         'edge, 2^40/2^57 and the top of the address space, the w=64 fill-constant family a slice of the single-segment images, ops exactly at / after the input bit, '
         'images and chains through 33..131 scattered 16K-word pages (page-table growth, cache-slot pressure; also with a second segment in every page and segment tables in three non-ascending orders), programs whose low segment covers three whole pages below the flat window with the far segment in a colliding page, run under every storage configuration (flat, hybrid windows cut at every word around each boundary, forced '
         'paged, env window, measurement loop, ring lengths 1/2/3/65) and every engine; cause, op count, fault address, IO '
         'calls, last-ops list and the final content of every touched in-segment word must equal the reference machine.',
         'Trusts R1; explicit flat windows are capped at 2^24 words; ops straddling bit 2^64 at w=64 are excluded here '
         '(finding F1, explored by C01).',
         'DESIGN.md section 3 C07'),
 'C17': ('model_checking',
         'explicit-state search over the live device objects (deep-copied states, every method as a transition) vs a bit-packing / polling-protocol model',
         'Breadth-first search from every input of length <= 2 over a 10-byte alphabet, all sequences of read / write0 / write1 / '
         'get_output / get_output(allow_incomplete) up to depth 10 (12 thorough) on FixedIO and StandardIO (stdin/stdout replaced), '
         'states de-duplicated by the full attribute dictionary; plus all 2^17-1 written bit strings of length <= 16, all texts of <= 6 bytes that can spell escape sequences (StandardIO echo), the output side of the keyboard device, all 65 793 '
         'inputs of length <= 2 read to EOF and beyond, inputs of 255..65 538 bytes (boundary lengths around powers of two) read to EOF with and without interleaved writes, all keyboard event scripts of <= 3 events over 32 event kinds, each as objects, as text and as text in mixed spellings (any case, 1/0, hex numbers, blanks, comments) (4-event '
         'scripts in thorough) x 40 reads via both constructors, and BrokenIO call sequences.',
         'A device state is its attribute dictionary (equal attributes, equal futures). Same-tic keyboard events are expected in script order.',
         'DESIGN.md section 3 C17'),
 'C18': ('fault_enumeration',
         'fault-point enumeration: every IO call index x fault kind x engine/storage/ring mode, state at the stop compared with the reference machine',
         'For every program of a deterministic set (first image per behaviour class of the C01 enumerations, an endless output '
         'loop, stl cat), a fault is injected at every IO call index: library IO error, IOReadOnEOF from read and from write, a '
         'foreign exception (ValueError, BrokenPipeError, the builtin EOFError, MemoryError, RecursionError, StopIteration, AssertionError, KeyError), KeyboardInterrupt raised by the device, and a SIGINT made pending inside the call by a pure-C '
         'callable (deterministic), on featured / fast / native flat, hybrid, paged, ring and measurement modes. Exception '
         'mapping, op count, device-side calls, last-ops list and the memory read back through the retained DeviceMemory must '
         'equal R1 after exactly the ops executed before the stop. The interactive window route: every sequence of event batches (<= 3 events, thorough 4, over 10 event kinds; two consecutive pumps with batches <= 2) through PygameWindow.pump_events, WindowKeyEventSource and InteractiveScreen presents on a stand-in pygame module - a batch holding a window-close event ends in KeyboardInterrupt and marks the window closed, other batches never raise and queue the documented key codes in order.',
         'Asynchronous delivery of a real signal at other eval-breaker points of the pure-Python loops cannot be scheduled '
         'deterministically and is outside the explored set; op count is unobservable when run() raises.',
         'DESIGN.md section 3 C18'),
 'C19': ('model_checking',
         'exhaustive device-access scripts injected at every IO call x engines x storage modes vs R1 with device ops; explicit-state search of the screen command decoder vs a model',
         'Every sequence of <= 2 (3 thorough) device operations (read/write word, read/write packed byte) over in-segment '
         'addresses chosen to collide with what the program does next (next op flip/jump word, the flip / jump word and IO cell of the output op that is executing, flip targets, lazily-zero tail, '
         'segment ends, far page) x values (0, all-ones, redirecting addresses, the w=64 fill constant) injected at each IO call and inside attach_memory, '
         'on 11 engine/storage modes: returned values, later program behaviour and final memory must equal R1 extended with the '
         'documented DeviceMemory semantics. The screen decoder is searched at byte level (every byte string to depth 8/9) and at '
         'command level (all sequences of up to 3/4 commands over ~60 commands, and all mode-switch streams of up to 5/6 commands over 3 modes, 2 palettes and 4 presenters) against a model written from the docstring; the '
         'every model stream is also fed to a second device that is looked at only at the end; the model streams also contain steps in which the program rewrites the palette / the framebuffer in place between two device commands; two repository screen programs and a third one that flips pixels and palette bytes between presents must present identical frames on every mode, incl. hybrid storage whose flat window ends inside the framebuffer / the palette.',
         'Device accesses outside segments, screens larger than 64 pixels and behaviour after a rejected stream are outside the bound.',
         'DESIGN.md section 3 C19'),
 'C06': ('exploration',
         'exhaustive enumeration of Writer call sequences over an edge alphabet x width x version x preset, read back and compared with a format model',
         'All single-segment call sequences (10 starts x 11 data lists x 6 data-range kinds x 9 lengths around the dense/lazy '
         'threshold), all two-segment sequences over a collision alphabet (adjacent / overlapping / same / before / far; shared, '
         'partially overlapping and out-of-pool data ranges) and three-segment sequences; every two-segment sequence also with the file written two / three times by the same writer (incl. non-ascending orders: a high first segment, a lower or far second one, a third placed relative to the FIRST), at w=8/16/32/64 and versions 0-3 (lzma '
         'presets 0/6/9): accepted => the Reader loads exactly the denoted image (every data word, zero tails probed at the '
         'threshold edges, neighbours invalid) and all versions give the same image; unrepresentable => FlipJumpWriteFjmException, '
         'never a raw exception, a refused file or a differently loaded one; a rejected call leaves no trace (the sequence continues after it); a call the format can represent is never accepted by one version and refused by another in the same writer state; data-less segments at every position. Assembled stl programs are compared across versions and '
         'against an independent decoder.',
         'Trusts the format model R2 (fjv/ref/fjm.py, ~100 lines). A representable input that the writer rejects is counted, not alarmed. Data pools are tiny except for one 18 MiB pool per lzma preset (finding F20).',
         'DESIGN.md section 3 C06'),
 'C10': ('fault_enumeration',
         'crash-point / corruption enumeration: every prefix, every header/table field substitution, payload byte substitutions, appended bytes, all short strings',
         'Corpus = files produced by the real Writer/assembler for every width x version (single op, multi-segment with lazy tail, a reserve-only segment between segments with data, '
         'unreferenced data, shared data, empty data, assembled hello-world, incompressible 140-190 KB v3 payloads, presets 0/9). '
         'Every strict prefix (every byte for small files), every single-field substitution over an edge alphabet, every two-field damage (+-1, +-2, bit 0) within one segment-table entry, single-byte payload '
         'substitutions, appended bytes (1 byte .. 3x64 KiB), recompressed v3 payloads of other lengths and all strings of length <= 2 are loaded: only an image or '
         'FlipJumpReadFjmException may result, within 10 s and a size-related allocation budget; a loaded prefix must equal the '
         'original image; a loaded file must be consistent by the format model and decode to its image.',
         'No checksum exists, so a field change that yields another well-formed file is a different program, not a violation; a v3 decompression bomb is not enumerated.',
         'DESIGN.md section 3 C10'),
 'C02': ('exploration',
         'exhaustive enumeration of primitive-statement sequences x width x version vs a denotational assembler model with a behavioural wflip chain walker',
         'All sequences of up to 3 statements over 44 shapes (ops over literals, string / char literals with hex escapes, chained conditionals, backward/forward labels, $, constants, label+-k*w, jump words and return addresses that do not fit, negative wflip values, unary-minus precedence; '
         'ten wflip forms forcing shared / unshared chains, three-operand wflips with $ in exactly one operand; pad 1/2/4; seven segment placements (incl. one that leaves room for exactly two ops below 2^w); six reserves incl. a zero and a negative one), depth 4 over a '
         '12-shape core and depth 5 over a 6-shape core (all of depth 4 in thorough), at w=8/16/32/64 and fjm versions: if the '
         'layout is possible the program must assemble and every statement word, label, reserved range and segment must match '
         'the two-pass denotation, and every wflip chain is executed out of the image (flips exactly the set bits, once each, '
         'popcount ops, ends at the return address, auxiliary ops outside user statements / reserved space); impossible '
         'layouts must be rejected with a FlipJumpException (an output file that does not load is a violation).',
         'Trusts R3 (checks/C02.py denote) and R5. Layouts whose only problem may be the implementation-chosen wflip area are accepted either way.',
         'DESIGN.md section 3 C02'),
 'C12': ('exploration',
         'exhaustive enumeration of expression trees rendered with minimal parentheses, of literal notations and of resolution-stage partitions vs a reference evaluator',
         'Every ordered pair of the 19 binary operators in both nestings x operand triples, every unary x binary / unary x unary / '
         '?: x operator combination in every position, non-associative comparison chains (must be rejected), 1500 literal forms '
         '(decimal/hex/binary, literals of 100..4000 digits in each base, every printable char, every escape, all 256 \\xHH in both cases, strings up to 3 chars), and every '
         'pair tree x every partition of its three leaves into literal / constant / macro parameter / label / rep iterator '
         '(value must not depend on the resolution stage; every other rep case sits in a macro whose parameter is spelled like the iterator), negative ternary conditions at every stage, a bare label on either side of every operator, and ~1500 expressions of one program sharing four constants (using a constant under an operator never changes it; half of these programs are assembled next to the cached standard library by one process); each value is observed completely (320 bits + sign) through '
         'assembled op words and compared with Python-int evaluation.',
         'R5 holds an independent transcription of the pinned precedence table (the repository documents it only in the grammar). '
         'Expressions with an undefined sub-expression or more than 300 bits are skipped (counted). Workers run under a 4 GiB address-space limit and a CPU limit; a worker that dies is a violation.',
         'DESIGN.md section 3 C12'),
 'C03': ('exploration',
         'exhaustive enumeration of macro skeletons x identifier-collision assignments x file splits vs an independent AST inliner (image equality through the real assembler)',
         '16 skeletons (param vs caller label, @ local vs argument, nested argument capture, rep iterator vs names, nested rep, '
         'caller label spelled like an iterator two levels down, arity overloading, < globals and > externs, namespaces with '
         '.rel and ..rel names, $, a local passed down, a label declared through a parameter, rep counts 0/1/3, three call '
         'levels with equal names, iterator spelled like its own macro parameter, relative names climbing to the root, a rep that does not use its iterator, guarded and mutual recursion, an expansion that emits nothing, parameters in pad / wflip statements, a label declared by several expansions, a rep of count 0 naming an undefined macro / arity) and call chains of 45..898 macros (plain, through rep(1), with zero-count reps at the bottom); a family of 576 programs per width with a constant in / above a namespace and parameters / locals spelled like it or like the built-in w (refused only where the plain spelling is a visible constant; whenever accepted, the inlined image); warning-free skeletons are also assembled with warnings as errors x every assignment of the pool {a,b,i} to '
         'the name slots (about 2 800 well-formed programs, 2 660 with a collision) x w x every 2-way file split: the image '
         'must equal the image of the program inlined by R4 on the AST; every worker process first assembles a program defining '
         'a, b, i as constants and then assembles every program next to the stl as well (no capture across assemblies).',
         'Trusts R4 (fjv/ref/macro.py, 150 lines); the primitive side is assembled by the real assembler (C02 covers it). `$` as a macro ARGUMENT is rejected by the assembler and is outside the family.',
         'DESIGN.md section 3 C03'),
 'C14': ('exploration',
         'exhaustive error templates (error class x evaluation stage x width x version) and all single-token mutations of seed programs; outcome classification',
         '8 arithmetic faults (three with 20 000-bit operands) x 16 evaluation stages (parse-time folding, constant definition/use, macro argument, rep count / '
         'iterator, pad / segment / reserve argument, late label resolution in flip / jump / wflip / segment, $) and ~85 further '
         'error templates (lexing, syntax, macros incl. recursion through rep, nesting right below / above the default depth, labels declared twice through expansions, wrong argument counts below / between / above several overloads, diagnostics raised under a label-counted rep, every geometry of two / three overlapping segments, labels, constants, directives, ranges, files) at every width and version, '
         'every sequence of <= 3 (4 thorough) primitive statements over a 16-statement alphabet, 45 long-token sources each in its own killable child process (a stall inside C code),  plus every deletion / duplication / swap / substitution (41-token alphabet) of every token of four seed programs (one '
         'with the stl): the outcome must be success or a FlipJumpException that is not the generic "Unknown exception" funnel '
         '(and names the offending identifier for templates that carry one), within 30 s, leaving no loadable output file.',
         'Operands of 20 000 bits are generated (F25), label expressions of up to 3000 terms too (F22); counts and alignments so large that the well-formed program cannot be materialised (pad 1<<40, rep(1<<20000)) are resource exhaustion, not error classes, and are not generated.',
         'DESIGN.md section 3 C14'),
 'C16': ('exploration',
         'exhaustive program family (C03 skeletons x identifier assignments x 1/2 files) - label instances of the inlined program matched against the saved table; breakpoint resolution over all names and derived substrings',
         'For ~7 400 (program, width, split: one file, two files, two files whose top-level calls share a line number) tables: every label instance produced by the R4 inliner must be in the saved table at '
         'its address (exact name for top-level/extern labels, a distinct name ending in the source label for macro-local ones), '
         'save/load must round-trip (also synthetic tables with unicode / 2 000 entries), and get_breakpoint_handler must resolve '
         'every exact label and every separator-delimited fragment of every name (incl. fragments with ( ) . : { -) to exactly '
         'the addresses of the labels containing it. Histories over one debug file: every sequence of <= 4 (5) operations over save / assemble / '
         'replace / copy / load / handler x five spellings of the path; every read returns the table written last. Exact-label sets mixing existing and unknown labels; an stl program\'s table after '
         'assemblies under other short-name schemes equals the fresh-process table; expansion-path entries sit at a statement of an expansion they name; source labels spelled like the assembler-internal per-segment names are refused or sit - in the table, the image and the breakpoints - at their statement.',
         'The naming format is deliberately not pinned.',
         'DESIGN.md section 3 C16'),
 'C04': ('model_checking',
         'explicit-state search over (operand values x block scratch residue) of every documented hex macro form executed by the real stl on the working-tree native engine; whole-image frame invariant',
         'About 60 hex macro forms (memory, logic, add/sub and their shifted / constant forms, inc/dec/neg/abs, shifts, count_bits, '
         'sign_extend, mul, mul10, add_mul, div, idiv with every rem_opt, if/if0/if1/sign/cmp/scmp/min/max/if_flags, single-hex '
         'forms, in-place div forms with q / r aliasing an input, constants with zero low hexes) as blocks of one assembled program: n=1 and n=2 exhaustively (65 536 operand pairs per two-operand block), '
         'every vector length 3..20 (thorough ..40, 64, 130) over a boundary alphabet, w=64/32(/16). Every transition checks the '
         'destination value against the doc-comment formula, the documented exit, and that NO other word of the whole memory image '
         'changed (no stale carry / table state); every distinct scratch residue a block leaves is re-explored against every '
         'operand tuple (closure), which decides arbitrary compositions; mixed block sequences are compared with the composed model. Pending carries: each of the 16 values the documented single-hex hex.add_mul leaves pending, and a pending single-hex add carry, then each of mul10 / add_mul n / mul / add / sub / inc. Table placement: the six truth tables allocated one by one (hex.tables.init_shared + hex.<t>.init) in every rotation of the library order, 0/256(/512/768) ops after a 1024-op boundary, all forms at n=2.',
         'Trusts the transcription R6 (fjv/stlspec.py). Words 0..3 (no-flip sink, dummy variable at address 0, IO cells) are exempt from the frame. Scratch-heavy blocks (mul, div) hit the 24-residue cap (reported).',
         'DESIGN.md section 3 C04/C05'),
 'C05': ('model_checking',
         'explicit-state search over (operand values x block scratch residue) of every documented bit macro form; whole-image frame invariant',
         'About 50 bit macro forms (memory, logic incl. xor_zero, if/if0/if1/cmp, shifts and rotates, inc/dec/neg/add/sub, mul, '
         'mul_loop, mul10, div10, div/idiv and their loop variants, in-place div forms with q / r aliasing an input, single-bit forms incl. inc1/add1): every vector length 1..8 '
         'exhaustively (all 65 536 operand pairs at n=8), 9..24 (thorough ..40, 64) over a boundary alphabet, at w=32/64/16; same '
         'oracle, frame invariant, residue closure and mixed sequences as C04.',
         'As C04. Harnesses that do not fit the 2^16-bit address space at w=16 are skipped and counted.',
         'DESIGN.md section 3 C04/C05'),
 'C08': ('model_checking',
         'explicit-state search over pointer targets x previous targets x cell/value alphabets for every pointer macro; all bounded push/pop sequences vs a list model; all bounded call trees',
         '32 hex pointer macro forms (read/write/xor/zero of hexes and bytes, 1- and 2-cell forms, *_and_inc, ptr_inc/dec/add/sub, '
         'ptr_index and read_nth/write_nth with negative indices, indexed reads into their own index variable, ptr_flip, ptr_flip_dbit, ptr_wflip, ptr_wflip_2nd_word, ptr_jump; pointer arithmetic also over boundary pointer values without dereference) at '
         'w=64/32 (plus ptr_flip through the address of a data bit, and every ordered PAIR of the 33 forms back to back: the second starts with the shared pointer registers as the first left them) and 8 bit-namespace pointer macros at w=64/32/16, over all 64 ordered (previous target, target) pairs of an 8-cell '
         'fenced buffer x cell and value alphabets (all 256 values of the pointed cell on a short target chain; the buffer straddles a 0x10000-bit carry boundary of pointer arithmetic): exactly the pointed cell / destination changes (whole-image frame invariant, guard '
         'cells, every other variable) and to_flip / to_jump mirror their _var copies. Stack (declared capacity = the deepest explored depth, so it gets exactly full): every sequence of <= 4 (6 thorough) '
         'operations over push/pop of hexes, bytes, 3- and 4-vectors and sp_inc/dec within depth 0..6 against a Python list (popped '
         'values, sp, every stack cell, get_sp). Calls: every call tree of depth <= 2 (3), fan-out <= 2 over call / call with a '
         'stack parameter / fcall-fret as a whole program; the printed markers must be the pre/post-order walk.',
         'Pointers stay inside the fenced buffer (the macros assume dw-aligned, valid addresses). Shared pointer globals are exempt from the frame and checked by invariants.',
         'DESIGN.md section 3 C08'),
 'C09': ('exploration',
         'exhaustive values for print/cast blocks and exhaustive short input strings for input blocks on the real stl, compared with Python formatting / parsing',
         '40 print forms (raw bits/bytes, hex digits with both cases, print_uint / print_int with every prefix/case option, decimal '
         'printers; bit and hex namespaces; constant outputs) over all values (all 65 536 16-bit values for the number printers), 12 '
         'input forms over all 4 369 byte strings (line helpers: also TAB / VT bytes) of length <= 3 (thorough 4) over a 16-byte alphabet with and without '
         'terminators (parsed value mod 16^n, stop byte, error exit, exact number of input bits consumed, end-of-input when '
         'truncated), 14 cast forms exhaustively incl. dirty destinations, and the 5 buffer helpers over all strings of length <= 3 '
         'over 4 bytes plus lines of 14..48 chars x counts 0..3, 15..17, 31..33, 48; variables and the whole image otherwise unchanged.',
         'On an error exit the destination is unspecified. Three documentation/behaviour mismatches found here (F17-F19) were repaired by fix: commits.',
         'DESIGN.md section 3 C09'),
 'C11': ('exploration',
         'exhaustive enumeration of _fjcore.Memory API call sequences over an adversarial alphabet on an ASan+UBSan build of the working-tree C source, plus sanitizer runs of the engine drivers',
         'All call sequences of depth <= 2 over a 149-operation alphabet (add_segment at page / window / 2^40 / 2^58 / 2^63 / 2^64 edges '
         'with zero, huge, exactly-to-2^64 and overflowing lengths; set_words inside / straddling / wrapping / with bad items; '
         'get_word / set_word at the same addresses; run with ring lengths 0/1/3/-1/2^62, start_ip 0/1/w/2^64-1 and device callbacks '
         'that poke the memory, add segments, re-init the object (also with rejected arguments) or run recursively; set_words with a sequence whose item access runs / re-initialises / extends the memory being loaded (F23); __init__ on a live object, accepted and rejected; 5000 descending '
         'segments) for 7 constructor configurations (32 thorough; depth >= 3 for two of them, six in thorough), depth 3 as (program load, run, anything) and (program load, rejected re-init, anything), depth 4 as (load, run, late add_segment, accessor / run); an ownership probe compares the reference counts of every argument object before / after ~30 call shapes (depth 4 thorough), plus '
         'slices of the C01 / C07 / C19 drivers and .fjm files with adversarial segment tables - all on a clang '
         '-fsanitize=address,undefined build loaded with LD_PRELOAD: no sanitizer report, normal worker exit.',
         'As strong as the sanitizers on the explored sequences; reference-count leaks are not detected. Most workers use a 2^16-word flat window (FLIPJUMP_FLAT_MAX_WORDS) to keep the 64 MB default-window fill out of the per-run cost; one worker keeps the real default.',
         'DESIGN.md section 3 C11'),
 'C13': ('model_checking',
         'explicit-state search over assemble-call histories in one process (forked children of a never-assembled parent); probe bytes vs a fresh interpreter process',
         'Every history of depth <= 2 over 29 assemble actions (thorough: also depth 3 over a 9-action core) (stl programs at two widths, no-stl, werror, a parse failure '
         'inside nested namespaces, a lexing error, an unknown macro after the cache was filled, recursion overflow with depth 5, depths '
         '2000 and 4000, programs defining top-level constants, programs behind a 1- or 2-file stl prefix with one to three user files, a 60 000-label program, a warning-raising program at a fixed path with and without warnings-as-errors, a rep-heavy program, the stl under other short names, a reduced stl built by trimming the list the public get_stl_paths() returned, another user short name, another directory) followed by twenty-four '
         'probe assemblies (different widths, versions, werror, programs using the constants\' names as labels, expressions nested 400 / 700 deep, a 600-term expression inside a macro with the default and a raised depth (F24), an invalid file list whose user file carries an stl short name, the failing inputs of the history again, an stl subset whose own parse raises warnings in the strict and the lenient mode), rotated so that every probe directly follows every last action: the .fjm and .fjd bytes of every probe must equal those of a brand-new '
         'interpreter process (two reference processes with different hash seeds and directories must agree as well).',
         'Each history runs in a forked child of a parent that imported flipjump but never assembled; all assemblies of a process write to the same two output paths, over what the previous one left there. The process-global state key is reported, not used to merge histories.',
         'DESIGN.md section 3 C13'),
 'C15': ('model_checking',
         'exhaustive debugger sessions (all command scripts of bounded length x breakpoint subsets x programs) vs a debugger model over the reference machine trace',
         'About 4 million sessions: every script of <= 3 commands over a 34-command alphabet (thorough: also 4 commands over an 11-command core, one of each kind) (reads by label incl. labels spelled with hex digits only) (step, skip N incl. 0 / negative / '
         'garbage, continue, the three continue-all spellings incl. mixed case, reads of words / unaligned / unmapped addresses / hex, bit '
         'and byte variables over a data segment with distinctive bits, help, unknown commands, empty lines, quit; running out = EOF) x '
         'every breakpoint subset of size <= 2 of the visited addresses + a never-visited one x 12 programs per width (one of them jumps into the lazily-zero tail of a long segment), through '
         'fjm_run.run(breakpoint_handler=...), plus sessions whose breakpoints are asked for by label (all subsets of 3 existing + 3 unknown labels) and by substring sets (incl. regular-expression metacharacters, single letters and common words) - twice on one debug-file path with other addresses -, sessions through the public wrapper flipjump.debug() (addresses / labels / substrings and every mix, also with no debug file and with an empty table), reads of the last word of the address space (a segment ends exactly at 2^w), and reads of the word the program will fault on: pause list (address, ops executed), values shown by reads, quit => keyboard-interrupt at '
         'the pause op count, otherwise output / IO calls / cause / op count / final memory equal the undebugged reference run.',
         'Messages are parsed only for addresses, op counts and values. Label / substring breakpoints are resolved in C16.',
         'DESIGN.md section 3 C15'),
 'C20': ('exploration',
         'full product of CLI option domains x three invocation routes; byte equality of the produced files, equality of output and termination, documented defaults',
         '193 option configurations (3 programs x -w x -v {absent,0,1,2,3} x -d {absent, path, bare} x --lzma_preset {absent,0,9} x -s; '
         'thorough adds w=16, --werror and all combinations) through `fj files -o`, `fj --asm -o` + `fj --run` (subprocesses of '
         'python -m flipjump.flipjump_cli on the working tree) and the Python API with the same explicit options: the three .fjm '
         '(and .fjd) files must be byte-identical (a -d PATH file must exist after every route), header width/version as requested or defaulted, program output and termination '
         'identical (a warning-raising program x --werror x -s x width x version; six spellings of one source path incl. a symlinked directory + `..`; every history of <= 3 API runs on the default terminal device vs fresh fj processes; the API routes run in a process where a caller has taken flipjump.get_stl_paths() and appended to / truncated / reversed its list); every ordered pair of five fj calls writing to one -o path (the second behaves as if alone); the verdicts of run_test_output / assemble_and_run_test_output over 4 endings x 7 expected causes x right / wrong output x raise / return; defaults observed directly: temporary file of the one-step flow is width 64 / version 1, with -o version 3, stl '
         'included unless --no_stl.',
         'The one-step temporary file is observed by wrapping flipjump_cli.TemporaryDirectory in-process.',
         'DESIGN.md section 3 C20'),
}

NOT_YET = {
}


def main():
    props = [json.loads(l)['id'] for l in (VERIF / 'properties.jsonl').read_text().splitlines() if l.strip()]
    checks = []
    for pid in props:
        if pid not in CHECKS:
            continue
        level, technique, text, note, ref = CHECKS[pid]
        checks.append({
            'property_id': pid,
            'quick_cmd': f'cd /verif && {PY} -m checks.{pid} --tier quick',
            'thorough_cmd': f'cd /verif && {PY} -m checks.{pid} --tier thorough',
            'evidence_file': f'/verif/evidence/{pid}.json',
            'replay_cmd_template': f'cd /verif && {PY} -m checks.{pid} --replay {{path}}',
            'engine': 'fjv',
            'level_claimed': {'category': level, 'text': text, 'design_ref': ref},
            'level_note': note,
            'technique': technique,
        })
    na = [{'property_id': pid, 'reason': NOT_YET.get(pid, 'check designed (DESIGN.md section 3) but not built yet in this tree; no claim is made')}
          for pid in props if pid not in CHECKS]
    manifest = {
        'version': 1,
        'setup_cmd': f'cd /verif && {PY} -m fjv.build plain verif asan',
        'hooks': {
            'guard': 'FLIPJUMP_VERIF',
            'enable': 'no hook is compiled into /repo: the checks rebuild flipjump/interpreter/_fjcore.c from the working tree '
                      '(plain / verif wrapper TU / ASan+UBSan) into /verif/.build and inject it as flipjump.interpreter._fjcore; '
                      'python and .fj sources are imported live from /repo',
            'baseline_off_cmd': 'cd /repo && /venv/bin/python -m pytest -ra -q -p no:cacheprovider --timeout=900 --continue-on-collection-errors',
            'source_commits': [],
            'add_only': True,
        },
        'engines': [{
            'name': 'fjv', 'path': '/verif/fjv', 'serves_properties': [c['property_id'] for c in checks],
            'kind_free_text': 'hand-written explicit-state / bounded-exhaustive explorers in Python that drive the real '
                              'flipjump code (assembler, fjm reader/writer, three interpreter engines, debugger, devices, stl) '
                              'and compare with small reference models',
        }],
        'checks': checks,
        'not_applicable': na,
        'notes': 'All checks: cd /verif && /venv/bin/python -m checks.<id> --tier quick|thorough [--replay file]. '
                 'VERIF_SEED rotates deterministic slices only; nothing is sampled. Known genuine defects: known_findings.json.',
    }
    (VERIF / 'MANIFEST.json').write_text(json.dumps(manifest, indent=1) + '\n')
    print('wrote MANIFEST.json with', len(checks), 'checks,', len(na), 'not_applicable')


if __name__ == '__main__':
    main()
