"""print the prompt for a seeding sub-agent: python tools/agent_prompt.py C07 /tmp/mut-C07 [variant-hint]"""
import json, sys
pid, d = sys.argv[1], sys.argv[2]
hint = sys.argv[3] if len(sys.argv) > 3 else ''
p = [json.loads(l) for l in open('/verif/properties.jsonl') if l.strip()]
p = [x for x in p if x['id'] == pid][0]
print(f"""You are helping to evaluate a verification effort by seeding ONE realistic bug into a codebase. Work ONLY inside the git worktree {d} (a checkout of tomhea/flip-jump: a Python macro assembler, the .fjm binary format writer/reader, and an interpreter/debugger - two pure-Python run loops plus an optional C extension flipjump/interpreter/_fjcore.c - for the FlipJump single-instruction esoteric language, with a .fj standard library under flipjump/stl). Do NOT read or write /repo, /verif, or any other worktree; use {d}/SEED/ for your deliverables and {d}-scratch/ for scratch files (delete the scratch dir at the end).

THE PROPERTY (it holds for the unmodified code, apart from possibly a few obscure pre-existing corner-case defects):
  Title: {p['title']}
  Statement: {p['statement']}
  Quantified over: {p['quantifier']['text']}
  Files it is anchored in: {', '.join(p['anchors']['files'])}

YOUR TASK: make ONE small, realistic change to the source (the kind of slip a maintainer could make in a refactor, optimisation or bug fix - not sabotage that looks absurd in review) that BREAKS this property, such that
 (a) everything still compiles and imports;
 (b) the existing test suite still passes, all 455 tests: `cd {d} && /venv/bin/python -m pytest -q -p no:cacheprovider --timeout=900` (about 1 minute). Python imports `flipjump` from the current directory, so always run from the worktree root. FIRST build the C extension once in your worktree (`cd {d} && /venv/bin/python build_fjcore.py`, needs ~10 s) so that the native-engine tests run against your tree, and rebuild it after any change to _fjcore.c;
 (c) the breakage needs something SPECIFIC to manifest - a particular input or boundary value, a particular configuration combination, a multi-step sequence of operations, a fault at a particular point, or two cooperating sites that each look fine alone. It must NOT be something ordinary use or a casual smoke test would expose at once.
{hint}
DELIVERABLES in {d}/SEED/ :
 - patch.diff : `git diff` of the source change only (do not include SEED/ or build outputs; the .so file is untracked, leave it out);
 - demo.py : a small standalone program, run as `cd {d} && /venv/bin/python SEED/demo.py`, that exits 0 on the unmodified code and exits 1 (printing what went wrong) with your change applied. Use only public behaviour (the flipjump Python API, the CLI, .fj programs, or the _fjcore.Memory object);
 - meta.json : {{"property": "{pid}", "summary": "...", "needs_to_manifest": "...", "files_changed": [...], "tests_passed": true|false, "demo_fails_with_patch": true|false, "demo_passes_without_patch": true|false}}.
Verify (b) and both demo outcomes yourself (`git stash` / `git apply -R SEED/patch.diff` to test without the patch; remember to rebuild the C extension when toggling a C change). Leave the worktree WITH the patch applied. Do not commit. In your final answer give: the change in two sentences, what is needed for it to manifest, and your verification results.""")
