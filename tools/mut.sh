#!/bin/bash
# usage: tools/mut.sh <patch-file|-e 'sed-expr' file> -- <check command...>
# applies a change to /repo, runs the command, always restores /repo.
set -u
if [ "$1" = "-e" ]; then sed -i "$2" "/repo/$3"; shift 3; else git -C /repo apply "$1" || exit 9; shift; fi
[ "$1" = "--" ] && shift
git -C /repo diff --stat | tail -1
"$@"; rc=$?
git -C /repo checkout -- . ; echo "restored; rc=$rc"; git -C /repo status --short | grep -v _fjcore.abi3.so
exit $rc
