"""fjv - bounded-exhaustive verification machinery for tomhea/flip-jump (see /verif/DESIGN.md)."""
import os
from pathlib import Path

VERIF = Path(__file__).resolve().parent.parent
REPO = Path(os.environ.get('FJV_REPO', '/repo'))
