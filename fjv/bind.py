"""Inject the freshly built native engine as flipjump.interpreter._fjcore, then import flipjump."""
import importlib.machinery
import importlib.util
import os
import sys

from . import REPO
from .build import build

_bound = None


def bind(kind: str = 'plain'):
    """build `kind` from the working tree and make flipjump use it. returns the module."""
    global _bound
    if _bound is not None:
        if _bound[0] != kind:
            raise RuntimeError(f'already bound to {_bound[0]}')
        return _bound[1]
    if 'flipjump' in sys.modules:
        raise RuntimeError('bind() must be called before flipjump is imported')
    if str(REPO) != '/repo':
        sys.path.insert(0, str(REPO))
    path = build(kind)
    name = 'flipjump.interpreter._fjcore'
    loader = importlib.machinery.ExtensionFileLoader(name, str(path))
    spec = importlib.util.spec_from_file_location(name, str(path), loader=loader)
    module = importlib.util.module_from_spec(spec)
    loader.exec_module(module)
    sys.modules[name] = module
    import flipjump  # noqa: F401
    from flipjump.interpreter import fjm_run
    import flipjump.interpreter as interp
    interp._fjcore = module
    assert fjm_run._fjcore is module, 'flipjump did not pick up the rebuilt native engine'
    assert os.path.realpath(flipjump.__file__).startswith(os.path.realpath(str(REPO))), flipjump.__file__
    _bound = (kind, module)
    return module
