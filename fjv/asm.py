"""Thin helpers around the repository's public assemble entry points."""
import io
import os
import sys
from contextlib import contextmanager
from pathlib import Path


@contextmanager
def quiet():
    """silence python-level stdout/stderr prints of the assembler (warnings etc.)."""
    so, se = sys.stdout, sys.stderr
    sys.stdout, sys.stderr = io.StringIO(), io.StringIO()
    try:
        yield sys.stdout
    finally:
        sys.stdout, sys.stderr = so, se


def assemble_files(paths, out_path, *, w=64, version=1, use_stl=True, werror=False, debug_path=None, max_recursion_depth=None,
                   names=None, lzma_preset=None):
    """assemble .fj files through assembler.assemble (the function flipjump.assemble wraps)."""
    from flipjump.assembler import assembler
    from flipjump.fjm.fjm_consts import FJMVersion
    from flipjump.fjm.fjm_writer import Writer
    from flipjump.utils.functions import get_file_tuples
    tuples = get_file_tuples([str(Path(p).absolute()) for p in paths], no_stl=not use_stl)
    if names:
        n = len(tuples) - len(paths)
        tuples = tuples[:n] + [(nm, t[1]) for nm, t in zip(names, tuples[n:])]
    kw = {}
    if lzma_preset is not None:
        kw['lzma_preset'] = lzma_preset
    writer = Writer(Path(out_path), w, FJMVersion(version), **kw)
    akw = {}
    if max_recursion_depth is not None:
        akw['max_recursion_depth'] = max_recursion_depth
    with quiet():
        assembler.assemble(tuples, w, writer, warning_as_errors=werror, debugging_file_path=Path(debug_path) if debug_path else None,
                           print_time=False, **akw)
    return writer


def assemble_text(text, out_path, workdir, **kw):
    """text: str or list of str (several files, in order)."""
    texts = [text] if isinstance(text, str) else list(text)
    paths = []
    for i, t in enumerate(texts):
        p = Path(workdir) / f'src{i}.fj'
        p.write_text(t)
        paths.append(p)
    return assemble_files(paths, out_path, **kw)


def load_image(path):
    """Reader(path) -> fjv.ref.machine.Image"""
    from flipjump.fjm.fjm_reader import Reader
    from .ref.machine import Image
    r = Reader(Path(path))
    return Image(r.memory_width, [(s.segment_start, s.segment_length) for s in r.memory_segments], dict(r.memory))
