"""Drive the repository's three engines through the public entry point fjm_run.run."""
import io
import os
import re
import sys
from contextlib import contextmanager

from .runner import Watchdog, watchdog

ENGINE_ENV = ('FLIPJUMP_NO_NATIVE', 'FLIPJUMP_NO_FLAT', 'FLIPJUMP_FLAT_MAX_WORDS', 'FLIPJUMP_MEASURE_SPECULATION')


class HorizonReached(Exception):
    """NOT a library exception on purpose: raised by the scripted device when the implementation
    asks for IO the reference run never performs."""


def make_device_class():
    from flipjump.interpreter.io_devices.IODevice import IODevice
    from flipjump.utils.exceptions import IOReadOnEOF

    class ScriptedDevice(IODevice):
        """answers reads from a fixed script (0/1/'E'); records every call; keeps the DeviceMemory."""

        def __init__(self, answers, hook=None):
            self.answers = list(answers)
            self.n = 0
            self.log = []
            self.memory = None
            self.hook = hook  # callable(io_index, kind, device) performing device-memory ops

        def attach_memory(self, device_memory):
            self.memory = device_memory
            if self.hook:
                self.hook(-1, 'attach', self)

        def read_bit(self):
            if self.n >= len(self.answers):
                self.log.append(('r', '?'))
                raise HorizonReached()
            a = self.answers[self.n]
            self.n += 1
            self.log.append(('r', a))
            if self.hook:
                self.hook(len(self.log) - 1, 'r', self)
            if a == 'E':
                raise IOReadOnEOF('scripted EOF')
            return bool(a)

        def write_bit(self, bit):
            self.log.append(('w', int(bool(bit))))
            if self.hook:
                self.hook(len(self.log) - 1, 'w', self)

        def get_output(self, *, allow_incomplete_output=False):
            return b''

    return ScriptedDevice


# name -> (kwargs for fjm_run.run, env overrides)
ENGINES = {
    'featured': (dict(profile=True), {}),
    'trace': (dict(show_trace=True), {}),
    'fast': ({}, {'FLIPJUMP_NO_NATIVE': '1'}),
    'native': ({}, {}),
    'native-paged': ({}, {'FLIPJUMP_NO_FLAT': '1'}),
    'native-measure': ({}, {'FLIPJUMP_MEASURE_SPECULATION': '1'}),
}


@contextmanager
def engine_env(env):
    saved = {k: os.environ.get(k) for k in ENGINE_ENV}
    for k in ENGINE_ENV:
        os.environ.pop(k, None)
    os.environ.update(env)
    try:
        yield
    finally:
        for k, v in saved.items():
            if v is None:
                os.environ.pop(k, None)
            else:
                os.environ[k] = v


HEX = re.compile(r'[0-9a-fA-F]+')


class Obs:
    """what one engine run showed."""
    __slots__ = ('cause', 'ops', 'fault', 'io', 'last_ops', 'trace_tokens', 'exc', 'storage', 'final', 'stderr')

    def __init__(self):
        self.cause = self.ops = self.fault = self.io = self.last_ops = self.trace_tokens = None
        self.exc = self.storage = self.final = self.stderr = None

    def as_dict(self):
        return {k: getattr(self, k) for k in self.__slots__ if getattr(self, k) is not None}


def run_engine(path, engine, device, *, ring=None, extra_kwargs=None, extra_env=None, timeout=5.0, probe=None):
    """run `path` on `engine` with `device`; never raises (exceptions are part of the observation).
    probe: iterable of word addresses read back through the device memory after the run."""
    from flipjump.interpreter import fjm_run
    kwargs, env = ENGINES[engine]
    kwargs = dict(kwargs)
    if extra_kwargs:
        kwargs.update(extra_kwargs)
    env = dict(env)
    if extra_env:
        env.update(extra_env)
    o = Obs()
    saved_out = sys.stdout
    buf = io.StringIO() if kwargs.get('show_trace') else None
    try:
        with engine_env(env):
            if buf is not None:
                sys.stdout = buf
            try:
                with watchdog(timeout):
                    st = fjm_run.run(path, io_device=device, last_ops_debugging_list_length=ring, **kwargs)
            finally:
                sys.stdout = saved_out
        o.cause = str(st.termination_cause)
        o.ops = st.op_counter
        o.fault = st.memory_error_address
        o.last_ops = list(st.last_ops_addresses) if st.last_ops_addresses is not None else None
        o.storage = st.storage_mode
    except Watchdog:
        o.exc = 'Watchdog'
    except BaseException as e:  # noqa
        c = e.__cause__
        o.exc = type(e).__name__ + (f'<-{type(c).__name__}' if c is not None else '')
        if isinstance(e, Watchdog) or isinstance(c, Watchdog):
            o.exc = 'Watchdog'
    o.io = list(device.log)
    if buf is not None:
        o.trace_tokens = [int(t, 16) for t in HEX.findall(buf.getvalue())]
    if probe is not None and device.memory is not None and o.exc is None:
        o.final = {wa: device.memory.read_word(wa) for wa in probe}
    return o
