"""Shared pieces of the engine checks (C01, C07, C11, C18, C19): alphabets, layouts, the lazily
branched environment answers, and the comparison of one engine observation with R1."""
import itertools
import os
import shutil
import tempfile
from pathlib import Path

from .images import pack_image
from .ref import machine as R1

HORIZON = 64
_tmpdir = None


def scratch() -> Path:
    """per-process scratch directory under the run's root in /dev/shm. the root is created by the
    first (parent) process and removed by it at exit, so children that are killed leak nothing."""
    global _tmpdir
    if _tmpdir is None or _tmpdir[0] != os.getpid():
        root = os.environ.get('FJV_SCRATCH_ROOT')
        if not root or not os.path.isdir(root):
            root = tempfile.mkdtemp(prefix=f'fjv-{os.getpid()}-', dir='/dev/shm')
            os.environ['FJV_SCRATCH_ROOT'] = root
            import atexit
            owner = os.getpid()

            def _rm():
                if os.getpid() == owner:
                    shutil.rmtree(root, True)
            atexit.register(_rm)
        d = Path(tempfile.mkdtemp(prefix=f'p{os.getpid()}-', dir=root))
        _tmpdir = (os.getpid(), d)
    return _tmpdir[1]


def cleanup_scratch():
    global _tmpdir
    if _tmpdir is not None and _tmpdir[0] == os.getpid():
        shutil.rmtree(str(_tmpdir[1]), True)
        _tmpdir = None


def word_alphabet(w, L, extra=()):
    """symbolic word alphabet V(w, L) (DESIGN C01): every address class relative to the words of
    a segment [0,L), the IO cells and the ends of the address space."""
    ww = w.bit_length() - 1
    dw = 2 * w
    in_addr = 3 * w + w.bit_length()
    vals = [0, 1, dw, dw + 1, dw + 2, in_addr, in_addr + 1]  # both sides of every reachable IO boundary (ip = in_addr-2w is < 2w: unreachable)
    for k in range(L):
        vals += [k * w, k * w + 1, k * w + w - 1]
    vals += [L * w - 1, L * w, (1 << w) - w, (1 << w) - 1]
    vals += list(extra)
    seen, out = set(), []
    for v in vals:
        v &= (1 << w) - 1
        if v not in seen:
            seen.add(v)
            out.append(v)
    return out


def answer_scripts(image, max_reads, horizon=HORIZON, device_ops=None):
    """lazily branch the environment: yield (answers, R1 result) for every input behaviour the
    program can observe within max_reads reads. results with cause HORIZON are yielded too
    (the caller counts them as skipped); NEED_INPUT beyond max_reads is yielded as capped."""
    stack = [[]]
    while stack:
        answers = stack.pop()
        r = R1.run(image, answers, horizon, device_ops=device_ops)
        if r.cause == R1.NEED_INPUT:
            if len(answers) < max_reads:
                for a in ('E', 1, 0):
                    stack.append(answers + [a])
            else:
                yield answers, r
            continue
        yield answers, r


def compare(r, o, ring, w, check_final=True):
    """list of (field, expected, observed) where engine observation o differs from R1 result r.
    ring: the last-ops length given to the engine (None = not requested)."""
    diffs = []
    if o.exc is not None:
        diffs.append(('exception', None, o.exc))
        return diffs
    if o.cause != r.cause:
        diffs.append(('cause', r.cause, o.cause))
    if o.ops != r.ops:
        diffs.append(('ops', r.ops, o.ops))
    if o.fault != r.fault:
        diffs.append(('fault_address', r.fault, o.fault))
    if [tuple(x) for x in o.io] != [tuple(x) for x in r.io]:
        diffs.append(('io_calls', r.io, o.io))
    if ring is None:
        if o.last_ops is not None:
            diffs.append(('last_ops', None, o.last_ops))
    else:
        exp = r.trace[-ring:] if ring > 0 else []
        if o.last_ops != exp:
            diffs.append(('last_ops', exp, o.last_ops))
    if o.trace_tokens is not None:
        exp = [t for step in r.steps if step[1] is not None for t in step if t is not None]  # the ip is printed with the flip word
        if o.trace_tokens != exp:
            diffs.append(('trace', exp, o.trace_tokens))
    if check_final and o.final is not None:
        exp = {wa: r.mem.get(wa, 0) for wa in o.final}
        if o.final != exp:
            bad = {wa: (exp[wa], o.final[wa]) for wa in exp if exp[wa] != o.final[wa]}
            diffs.append(('final_memory', {k: v[0] for k, v in bad.items()}, {k: v[1] for k, v in bad.items()}))
    return diffs


def features(r, w):
    """coarse behaviour classes of a reference run (vacuity guard / histogram)."""
    dw = 2 * w
    f = set()
    f.add('cause:' + r.cause)
    for ip, fl, j in r.steps:
        if ip & (w - 1):
            f.add('unaligned_op')
        if ip % dw and not ip & (w - 1):
            f.add('odd_word_op')
        if fl is not None and ip <= fl < ip + dw:
            f.add('flips_own_op')
        if fl is not None and ip + w <= fl < ip + dw:
            f.add('flips_own_jump_word')
    if any(k == 'w' for k, _ in r.io):
        f.add('output')
    if any(k == 'r' for k, _ in r.io):
        f.add('input')
    if len(r.trace) >= 3:
        f.add('ops>=3')
    return f


def probe_words(image, r, cap=64):
    """in-segment words whose final content is compared: all explicit/touched words, plus the
    ends of every segment."""
    ws = set(r.mem)
    for s, l in image.segments:
        ws.update((s, s + l - 1))
    ws = sorted(ws)
    return ws[:cap]


def write_image(image, name='img.fjm'):
    p = scratch() / name
    p.write_bytes(pack_image(image))
    return p


def product_images(w, segments, positions, alphabet, fixed=None):
    """every assignment of alphabet values to `positions` (word addresses); fixed: dict of other words."""
    fixed = fixed or {}
    for combo in itertools.product(alphabet, repeat=len(positions)):
        data = dict(fixed)
        data.update(zip(positions, combo))
        yield R1.Image(w, segments, data)
