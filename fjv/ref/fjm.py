"""R2 - the .fjm format model (independent of the repository's reader/writer).

struct { u16 magic 'FJ'; u16 w; u64 version; u64 segment_num; [v>0: u64 flags; u32 reserved=0]
         segment[segment_num] { u64 start; u64 length; u64 data_start; u64 data_length }  (word units)
         data: w-bit little-endian words  (v2/v3: every odd-indexed word of a segment's data, i.e. its
               jump words, is stored relative: stored = (value - (word_address)*w) mod 2^w;  v3: the data
               area is raw-LZMA2 compressed) }
"""
import lzma
import struct

MAGIC = 0x4A46
WIDTHS = (8, 16, 32, 64)
U64 = 1 << 64
FMT = {8: 'B', 16: 'H', 32: 'L', 64: 'Q'}
DENSE_THRESHOLD = 1000


class Reject(Exception):
    """the byte string is not decodable as an .fjm at all."""


class Parsed:
    def __init__(self, w, version, flags, segments, pool):
        self.w, self.version, self.flags, self.segments, self.pool = w, version, flags, segments, pool


def parse(b: bytes) -> Parsed:
    if len(b) < 20:
        raise Reject('short header')
    magic, w, version, nseg = struct.unpack_from('<HHQQ', b, 0)
    if magic != MAGIC:
        raise Reject('magic')
    if version not in (0, 1, 2, 3):
        raise Reject('version')
    if w not in WIDTHS:
        raise Reject('width')
    off = 20
    flags = 0
    if version != 0:
        if len(b) < off + 12:
            raise Reject('short header extension')
        flags, reserved = struct.unpack_from('<QL', b, off)
        off += 12
        if reserved != 0:
            raise Reject('reserved')
    if nseg > (len(b) - off) // 32:
        raise Reject('segment table truncated')
    segments = [struct.unpack_from('<QQQQ', b, off + 32 * i) for i in range(nseg)]
    off += 32 * nseg
    payload = b[off:]
    if version == 3:
        try:
            payload = lzma.decompress(payload, format=lzma.FORMAT_RAW, filters=[{'id': lzma.FILTER_LZMA2}])
        except (lzma.LZMAError, EOFError) as e:
            raise Reject('lzma: ' + str(e))
    wb = w // 8
    if len(payload) % wb:
        raise Reject('payload is not a whole number of words')
    pool = list(struct.unpack(f'<{len(payload) // wb}{FMT[w]}', payload))
    return Parsed(w, version, flags, segments, pool)


def inconsistencies(p: Parsed):
    """invariants every writer-produced file satisfies; a file violating one is 'mutually
    inconsistent' (header / table / payload disagree) and must not be loaded."""
    bad = []
    ranges = []
    for i, (start, length, ds, dl) in enumerate(p.segments):
        if start % 2 or length % 2:
            bad.append(f'seg{i}: odd start/length')
        if dl % 2:
            bad.append(f'seg{i}: odd data length')
        if dl > length:
            bad.append(f'seg{i}: data longer than the segment')
        if ds + dl > len(p.pool):
            bad.append(f'seg{i}: data range outside the pool')
        for j, (s2, l2, ds2, dl2) in enumerate(p.segments[:i]):
            if start < s2 + l2 and s2 < start + length:
                bad.append(f'seg{i}: address range overlaps seg{j}')
    return bad


def image(p: Parsed):
    """-> (words dict incl. explicit zeros for small tails, lazily-zero ranges, segment list)."""
    mask = (1 << p.w) - 1
    words, lazy = {}, []
    for start, length, ds, dl in p.segments:
        for i in range(dl):
            v = p.pool[ds + i]
            if p.version in (2, 3) and i % 2 == 1:
                v = (v + (start + i) * p.w) & mask
            words[start + i] = v
        if length > dl:
            if length - dl < DENSE_THRESHOLD:
                for i in range(dl, length):
                    words[start + i] = 0
            else:
                lazy.append((start + dl, start + length))
    return words, lazy, [(s, l) for s, l, _, _ in p.segments]


def value_at(words, lazy, segs, wa):
    """the word at wa, or None if outside every segment."""
    if wa in words:
        return words[wa]
    for a, b in lazy:
        if a <= wa < b:
            return 0
    for s, l in segs:
        if s <= wa < s + l:
            return 0
    return None


def normalize(words, lazy, segs):
    """representation-independent image: nonzero words + segment list (order kept)."""
    return ({k: v for k, v in words.items() if v}, list(segs))


def reader_image(r):
    """the same triple from a repository Reader object (public attributes)."""
    return dict(r.memory), list(r.zeros_boundaries), [(s.segment_start, s.segment_length) for s in r.memory_segments]
