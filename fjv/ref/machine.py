"""R1 - the FlipJump machine, as the definition prescribes it. Boring on purpose.

Memory = the in-segment words of an image (dict word->value; in-segment words that were never
given read 0). One op at bit address ip:
  1. fetch the flip word f (unaligned: low word then high word; each must be inside a segment)
  2. if f is one of the two output bits (2w, 2w+1): emit bit f-2w
  3. if the op covers the input bit (ip <= 3w+#w < ip+2w): consume one input bit (end of input
     terminates the run, that op is not counted) and store it (its word must be in a segment)
  4. flip bit f (its word must be inside a segment)
  5. fetch the jump word j (after the flip); the op now counts as executed
  6. j == ip and the flip did not touch this op  -> self-loop halt
     j < 2w                                      -> null-ip
     else ip = j
An access outside every segment terminates with the bit address of the first missing word.
"""

LOOPING, EOF, NULL_IP, MEM_ERROR, HORIZON, NEED_INPUT = 'looping', 'EOF', 'ip<2w', 'runtime-memory-error', 'horizon', 'need-input'


class Fault(Exception):
    def __init__(self, addr):
        self.addr = addr


class Image:
    """w, segments [(start_word, length_words)], data {word_address: value} (in-segment only)."""

    def __init__(self, w, segments, data):
        self.w = w
        self.segments = [tuple(s) for s in segments]
        self.data = dict(data)

    def valid(self, wa):
        for s, l in self.segments:
            if s <= wa < s + l:
                return True
        return False

    def to_json(self):
        return {'w': self.w, 'segments': [list(s) for s in self.segments],
                'data': {str(k): v for k, v in sorted(self.data.items())}}

    @staticmethod
    def from_json(j):
        return Image(j['w'], j['segments'], {int(k): v for k, v in j['data'].items()})


class Result:
    __slots__ = ('cause', 'ops', 'fault', 'io', 'trace', 'mem', 'steps', 'ip', 'reads')

    def key(self):
        return (self.cause, self.ops, self.fault, tuple(self.io))


def run(image, answers, horizon, device_ops=None, stop_after_io=None):
    """answers: list of 0/1/'E' consumed by successive reads; when exhausted the result is
    NEED_INPUT (the caller branches). device_ops: optional callable(io_index, kind, machine)
    invoked at each IO call (C19). stop_after_io: stop before performing IO call number k (C18)."""
    w = image.w
    ww = w.bit_length() - 1
    dw = 2 * w
    mask = (1 << w) - 1
    in_addr = 3 * w + w.bit_length()
    mem = dict(image.data)
    valid = image.valid

    def rd(wa):
        v = mem.get(wa)
        if v is None:
            if not valid(wa):
                raise Fault(wa << ww)
            return 0
        return v

    def fetch(addr):
        off = addr & (w - 1)
        wa = addr >> ww
        if off == 0:
            return rd(wa)
        lsw = rd(wa)
        msw = rd(wa + 1)
        return ((lsw >> off) | (msw << (w - off))) & mask

    r = Result()
    r.io, r.trace, r.steps, r.fault, r.reads = [], [], [], None, 0
    ip, ops, nread = 0, 0, 0
    machine = {'mem': mem, 'valid': valid, 'w': w}
    if device_ops:
        device_ops(-1, 'attach', machine)  # what a device does when the run hands it the memory: before the first op, on the loaded image
    try:
        while True:
            if ops >= horizon:
                r.cause = HORIZON
                break
            r.trace.append(ip)
            step = [ip, None, None]
            r.steps.append(step)
            f = fetch(ip)
            step[1] = f
            if f == dw or f == dw + 1:
                if stop_after_io is not None and len(r.io) == stop_after_io:
                    r.cause = 'stopped'
                    break
                r.io.append(('w', f - dw))
                if device_ops:
                    device_ops(len(r.io) - 1, 'w', machine)
            if ip <= in_addr < ip + dw:
                if stop_after_io is not None and len(r.io) == stop_after_io:
                    r.cause = 'stopped'
                    break
                if nread >= len(answers):
                    r.cause = NEED_INPUT
                    break
                a = answers[nread]
                nread += 1
                r.io.append(('r', a))
                if device_ops:
                    device_ops(len(r.io) - 1, 'r', machine)
                if a == 'E':
                    r.cause = EOF
                    break
                iw = in_addr >> ww
                cur = rd(iw)
                bit = 1 << (in_addr & (w - 1))
                mem[iw] = (cur | bit) if a else (cur & ~bit)
            fw = f >> ww
            mem[fw] = rd(fw) ^ (1 << (f & (w - 1)))
            j = fetch(ip + w)
            step[2] = j
            ops += 1
            if j == ip and not (ip <= f < ip + dw):
                r.cause = LOOPING
                break
            if j < dw:
                r.cause = NULL_IP
                break
            ip = j
    except Fault as e:
        r.cause = MEM_ERROR
        r.fault = e.addr
    r.ops, r.mem, r.ip, r.reads = ops, mem, ip, nread
    return r


def final_memory(image, mem):
    """the final content of every in-segment word that is explicitly known (data or touched)."""
    return {wa: v for wa, v in mem.items()}
