"""R5 - constant expressions as unbounded-integer arithmetic + a minimal-parentheses renderer.

Trees: int | ('id', name) | (op, child...) with op in UNARY / BINARY / '?:'.
The precedence/associativity table is an independent transcription of the pinned grammar
(lowest first):  ?: (right) < || < && < | < ^ < (< > <= >=, non-assoc) < (== !=) < & < (<< >>)
< (+ -) < (* / %) < unary (# - ~, prefix) < ** (right).
"""

UNARY = ('-', '~', '#')
LEVELS = [
    ('right', ('?:',)),
    ('left', ('||',)),
    ('left', ('&&',)),
    ('left', ('|',)),
    ('left', ('^',)),
    ('nonassoc', ('<', '>', '<=', '>=')),
    ('left', ('==', '!=')),
    ('left', ('&',)),
    ('left', ('<<', '>>')),
    ('left', ('+', '-')),
    ('left', ('*', '/', '%')),
    ('unary', UNARY),
    ('right', ('**',)),
]
BINARY = tuple(op for assoc, ops in LEVELS if assoc in ('left', 'right', 'nonassoc') for op in ops if op != '?:')
LEVEL_OF = {}
ASSOC_OF = {}
for _i, (_a, _ops) in enumerate(LEVELS):
    for _o in _ops:
        if _a != 'unary':
            LEVEL_OF[_o] = _i
            ASSOC_OF[_o] = _a
UNARY_LEVEL = 11
ATOM = 99


class EvalError(Exception):
    pass


class TooBig(Exception):
    pass


MAX_BITS = 300


def ev(t, env=None):
    """unbounded-integer value of a tree. raises EvalError for undefined operations (they belong
    to C14), TooBig when an intermediate exceeds MAX_BITS bits (outside the bound)."""
    if isinstance(t, int):
        return t
    op = t[0]
    if op == 'id':
        return env[t[1]]
    if op == 'raw':
        return t[2]   # ('raw', source text of a literal, its value)
    a = [ev(c, env) for c in t[1:]]
    if op == '?:':
        return a[1] if a[0] else a[2]
    if len(a) == 1:
        x = a[0]
        return -x if op == '-' else ~x if op == '~' else abs(x).bit_length()
    x, y = a
    if op == '+':
        r = x + y
    elif op == '-':
        r = x - y
    elif op == '*':
        r = x * y
    elif op == '/':
        if y == 0:
            raise EvalError('/0')
        r = x // y
    elif op == '%':
        if y == 0:
            raise EvalError('%0')
        r = x % y
    elif op == '**':
        if y < 0:
            raise EvalError('negative exponent')
        if y > 64 or (abs(x).bit_length() * max(y, 1)) > MAX_BITS:
            raise TooBig()
        r = x ** y
    elif op == '<<':
        if y < 0:
            raise EvalError('negative shift')
        if y > MAX_BITS:
            raise TooBig()
        r = x << y
    elif op == '>>':
        if y < 0:
            raise EvalError('negative shift')
        if y > 4096:
            raise TooBig()
        r = x >> y
    elif op == '&':
        r = x & y
    elif op == '|':
        r = x | y
    elif op == '^':
        r = x ^ y
    elif op == '&&':
        r = 1 if (x != 0 and y != 0) else 0
    elif op == '||':
        r = 1 if (x != 0 or y != 0) else 0
    elif op == '<':
        r = int(x < y)
    elif op == '>':
        r = int(x > y)
    elif op == '<=':
        r = int(x <= y)
    elif op == '>=':
        r = int(x >= y)
    elif op == '==':
        r = int(x == y)
    elif op == '!=':
        r = int(x != y)
    else:
        raise ValueError(op)
    if abs(r).bit_length() > MAX_BITS:
        raise TooBig()
    return r


def level(t):
    if isinstance(t, int) or t[0] == 'id' or t[0] == 'raw':
        return ATOM
    if t[0] == '?:':
        return 0
    if len(t) == 2:
        return UNARY_LEVEL
    return LEVEL_OF[t[0]]


def render(t, leaf=None):
    """text with the fewest parentheses the table allows. leaf: optional callable for ('id', n)."""
    if isinstance(t, int):
        assert t >= 0
        return str(t)
    op = t[0]
    if op == 'id':
        return leaf(t[1]) if leaf else t[1]
    if op == 'raw':
        return t[1]

    def sub(c, need):
        s = render(c, leaf)
        return f'({s})' if need else s

    if op == '?:':
        c, a, b = t[1:]
        return f'{sub(c, level(c) == 0)} ? {sub(a, False)} : {sub(b, False)}'
    if len(t) == 2:
        c = t[1]
        # a prefix operator binds tighter than every binary operator except ** (which sits above it)
        need = level(c) < UNARY_LEVEL
        s = sub(c, need)
        return f'{op}{s}' if not (op == '-' and s.startswith('-')) else f'{op} {s}'
    p, assoc = LEVEL_OF[op], ASSOC_OF[op]
    l, r = t[1], t[2]
    ll, rl = level(l), level(r)
    need_l = ll < p or (ll == p and assoc in ('right', 'nonassoc'))
    need_r = rl < p or (rl == p and assoc in ('left', 'nonassoc'))
    if op == '**' and rl == UNARY_LEVEL:
        need_r = False  # `x ** -y`: a prefix operator can only start a new operand
    return f'{sub(l, need_l)} {op} {sub(r, need_r)}'


def full_parens(t, leaf=None):
    if isinstance(t, int):
        return str(t)
    if t[0] == 'id':
        return leaf(t[1]) if leaf else t[1]
    if t[0] == 'raw':
        return t[1]
    if t[0] == '?:':
        return '(' + full_parens(t[1], leaf) + ' ? ' + full_parens(t[2], leaf) + ' : ' + full_parens(t[3], leaf) + ')'
    if len(t) == 2:
        return f'({t[0]}{full_parens(t[1], leaf)})'
    return f'({full_parens(t[1], leaf)} {t[0]} {full_parens(t[2], leaf)})'
