"""R4 - hygienic macro inlining on the generator's AST (never parses .fj text).

AST
  program  = list of items
  item     = ('def', name, params, locals, globals, externs, body)   name is the canonical dotted name
           | ('ns', name, items)
           | statement
  statement= ('op', flip_tree|None, jump_tree|None)
           | ('label', ident)
           | ('call', macro_ident, [arg trees])
           | ('rep', count_tree, iterator_name, macro_ident, [arg trees])
           | ('pad', alignment_tree) | ('wflip', address_tree, value_tree, return_tree|None)
  ident    = ('id', canonical, spelling)   canonical: the global dotted name, or the bare name of a
             parameter / @-local / iterator; spelling: how it is written in the source (relative dots)
  trees are R5 trees whose identifier leaves are idents; ('id', '$', '$') is the next address.

inline(program) -> (primitive statements, label instances)
  every call is replaced by the callee's body with the arguments substituted *as trees* (an argument
  is never re-substituted: no capture), every @-local renamed apart per expansion, rep(n, i) unrolled
  for i = 0..n-1 (the iterator shadows an equally named binding inside the rep's arguments only).
"""
from . import expr as R5


class InlineError(Exception):
    pass


def ident(canonical, spelling=None):
    return ('id', canonical, spelling or canonical)


DOLLAR = ('id', '$', '$')


# ------------------------------------------------------------------ rendering the source text
def render_tree(t):
    return R5.render(_strip(t))


def _strip(t):
    if isinstance(t, tuple):
        if t[0] == 'id':
            return ('id', t[2])
        return (t[0],) + tuple(_strip(c) for c in t[1:])
    return t


def render_stmt(st):
    k = st[0]
    if k == 'op':
        f = render_tree(st[1]) if st[1] is not None else ''
        j = render_tree(st[2]) if st[2] is not None else ''
        return f'{f};{j}'
    if k == 'label':
        return f'{st[1][2]}:'
    if k == 'call':
        args = ', '.join(_arg(a) for a in st[2])
        return f'{st[1][2]} {args}'.rstrip()
    if k == 'rep':
        args = ', '.join(_arg(a) for a in st[4])
        return f'rep({render_tree(st[1])}, {st[2]}) {st[3][2]} {args}'.rstrip()
    if k == 'pad':
        return f'pad {render_tree(st[1])}'
    if k == 'wflip':
        return f'wflip {_arg(st[1])}, {_arg(st[2])}' + (f', {_arg(st[3])}' if st[3] is not None else '')
    raise ValueError(k)


def _arg(a):
    s = render_tree(a)
    return f'({s})' if s.startswith('-') else s


def render_items(items, indent=0):
    """-> list of source lines"""
    pad = '    ' * indent
    out = []
    for it in items:
        if it[0] == 'def':
            _, name, params, locs, globs, exts, body = it
            head = f'def {name.split(".")[-1]}'
            if params:
                head += ' ' + ', '.join(params)
            if locs:
                head += ' @ ' + ', '.join(locs)
            if globs:
                head += ' < ' + ', '.join(g[2] if isinstance(g, tuple) else g for g in globs)
            if exts:
                head += ' > ' + ', '.join(exts)
            out.append(pad + head + ' {')
            for st in body:
                out.append(pad + '    ' + render_stmt(st))
            out.append(pad + '}')
        elif it[0] == 'ns':
            out.append(pad + f'ns {it[1]} {{')
            out += render_items(it[2], indent + 1)
            out.append(pad + '}')
        else:
            out.append(pad + render_stmt(it))
    return out


def top_level_chunks(items):
    """source text per top-level item (for file splits)"""
    return ['\n'.join(render_items([it])) + '\n' for it in items]


# ------------------------------------------------------------------ the inliner
def collect(items, macros, flat, ns=()):
    for it in items:
        if it[0] == 'def':
            key = (it[1], len(it[2]))
            if key in macros:
                raise InlineError(f'macro {key} defined twice')
            macros[key] = it
        elif it[0] == 'ns':
            collect(it[2], macros, flat, ns + (it[1],))
        else:
            flat.append(it)


def subst(t, env):
    """replace bound identifier leaves by their bound trees (one level: bound trees are closed)."""
    if isinstance(t, tuple):
        if t[0] == 'id':
            return env.get(t[1], t)
        return (t[0],) + tuple(subst(c, env) for c in t[1:])
    return t


def closed_value(t):
    """value of a tree without free identifiers (rep counts)."""
    try:
        return R5.ev(_canon(t), {})
    except KeyError as e:
        raise InlineError(f'rep count depends on a label: {e}')


def _canon(t):
    if isinstance(t, tuple):
        if t[0] == 'id':
            return ('id', t[1])
        return (t[0],) + tuple(_canon(c) for c in t[1:])
    return t


EXPANSIONS = []  # filled by the last inline(): one entry per macro expansion


def inline(program, max_depth=40):
    EXPANSIONS.clear()
    macros, flat = {}, []
    collect(program, macros, flat)
    out = []
    instances = []  # (path tuple, source label name, primitive name, kind)
    counter = [0]

    def expand(body, env, path, depth):
        if depth > max_depth:
            raise InlineError('recursion')
        for st in body:
            k = st[0]
            if k == 'op':
                out.append(('op', subst(st[1], env) if st[1] is not None else None, subst(st[2], env) if st[2] is not None else None))
            elif k == 'label':
                b = env.get(st[1][1])
                if b is None:
                    name, kind = st[1][1], 'global'
                else:
                    if not (isinstance(b, tuple) and b[0] == 'id'):
                        raise InlineError('label declared through a non-name argument')
                    name, kind = b[1], 'bound'
                out.append(('label', ident(name)))
                instances.append((path, st[1][1], name, kind))
            elif k == 'call':
                args = [subst(a, env) for a in st[2]]
                do_call(st[1][1], args, path + (('call', len(out), st[1][1]),), depth)
            elif k == 'pad':
                out.append(('pad', subst(st[1], env)))
            elif k == 'wflip':
                out.append(('wflip', subst(st[1], env), subst(st[2], env), subst(st[3], env) if st[3] is not None else None))
            elif k == 'rep':
                n = closed_value(subst(st[1], env))
                it = st[2]
                for i in range(n):
                    inner = dict(env)
                    inner[it] = i  # the iterator shadows an equally named binding, in the arguments only
                    args = [subst(a, inner) for a in st[4]]
                    do_call(st[3][1], args, path + (('rep', len(out), st[3][1], i),), depth)
            else:
                raise ValueError(k)

    def do_call(name, args, path, depth):
        m = macros.get((name, len(args)))
        if m is None:
            raise InlineError(f'unknown macro {name}/{len(args)}')
        _, _, params, locs, globs, exts, body = m
        env = dict(zip(params, args))
        counter[0] += 1
        uid = counter[0]
        for loc in locs:
            env[loc] = ident(f'{loc}__x{uid}')
        first = len(out)
        expand(body, env, path, depth + 1)
        # (macro name, ops emitted before the expansion, ops the expansion emitted)
        EXPANSIONS.append((name, sum(1 for st in out[:first] if st[0] == 'op'), sum(1 for st in out[first:] if st[0] == 'op')))

    expand(flat, {}, (), 0)
    return out, instances


def render_primitive(stmts):
    """text of an inlined (macro-free) program; global dotted names are flattened to plain identifiers."""
    def flat_name(n):
        return n.replace('.', '__d__')

    def fix(t):
        if isinstance(t, tuple):
            if t[0] == 'id':
                return ('id', t[1] if t[1] == '$' else flat_name(t[1]))
            return (t[0],) + tuple(fix(c) for c in t[1:])
        return t
    lines = []
    for st in stmts:
        if st[0] == 'label':
            lines.append(flat_name(st[1][1]) + ':')
        elif st[0] == 'pad':
            lines.append('    pad ' + R5.render(fix(st[1])))
        elif st[0] == 'wflip':
            lines.append('    wflip ' + ', '.join('(' + R5.render(fix(x)) + ')' for x in st[1:] if x is not None))
        else:
            f = R5.render(fix(st[1])) if st[1] is not None else ''
            j = R5.render(fix(st[2])) if st[2] is not None else ''
            lines.append(f'    {f};{j}')
    return '\n'.join(lines) + '\n'
