"""Macro-program skeletons for C03 / C16: every skeleton has name slots that are filled with every
assignment of a small colliding identifier pool."""
import itertools

from .ref.macro import ident, DOLLAR

POOL = ('a', 'b', 'i')
W = ('id', 'w', 'w')
DW = ('*', 2, W)


def I(n):
    return ident(n)


def op(f=None, j=None):
    return ('op', f, j)


def lab(n, spelling=None):
    return ('label', ident(n, spelling))


def call(name, *args, spelling=None):
    return ('call', ident(name, spelling), list(args))


def rep(count, it, name, *args, spelling=None):
    return ('rep', count, it, ident(name, spelling), list(args))


def mdef(name, params=(), locs=(), globs=(), exts=(), body=()):
    return ('def', name, list(params), list(locs), list(globs), list(exts), list(body))


def distinct(*names):
    return len(set(names)) == len(names)


# each skeleton: (name, nslots, wellformed(slots) -> bool, build(slots) -> program)
SKELETONS = []


def skeleton(name, nslots, wf=None):
    def deco(fn):
        SKELETONS.append((name, nslots, wf or (lambda s: True), fn))
        return fn
    return deco


@skeleton('param-vs-caller-label', 2)
def _s1(s):
    P, L = s
    return [mdef('m', [P], body=[op(None, I(P)), op(I(P), None)]),
            lab(L), call('m', I(L)), op(None, I(L)), call('m', ('+', I(L), DW))]


@skeleton('local-vs-argument', 3, lambda s: s[0] != s[1])
def _s2(s):
    P, X, L = s
    return [mdef('m', [P], [X], body=[lab(X), op(None, I(P)), op(I(X), I(X))]),
            lab(L), call('m', I(L)), call('m', ('+', I(L), W)), op(None, I(L))]


@skeleton('nested-argument-capture', 5, lambda s: s[0] != s[1] and s[2] != s[3])
def _s3(s):
    P1, X1, P2, X2, L = s
    return [mdef('inner', [P1], [X1], body=[lab(X1), op(None, I(P1)), op(None, I(X1))]),
            mdef('outer', [P2], [X2], body=[lab(X2), call('inner', I(P2)), call('inner', I(X2)), op(I(P2), I(X2))]),
            lab(L), call('outer', I(L)), op(None, I(L))]


@skeleton('rep-iterator-vs-names', 4)
def _s4(s):
    It, Q, P, L = s
    return [mdef('leaf', [P], body=[op(None, I(P))]),
            mdef('mid', [Q], body=[rep(3, It, 'leaf', ('+', I(Q), ('*', I(It), DW))), op(None, I(Q)), op(I(Q), None)]),
            lab(L), call('mid', I(L)), op(None, I(L))]


@skeleton('nested-rep', 5, lambda s: s[3] != s[4])
def _s5(s):
    It, Jt, A, X, Y = s
    return [mdef('leaf', [X, Y], body=[op(('*', I(X), 4), ('+', ('*', I(X), 16), I(Y)))]),
            mdef('row', [A], body=[rep(2, Jt, 'leaf', I(A), I(Jt)), op(None, I(A))]),
            rep(3, It, 'row', I(It))]


@skeleton('caller-label-like-iterator-two-levels-down', 5)
def _s6(s):
    It, Q, P, LBL, I2 = s
    return [mdef('leaf', [P], body=[op(None, I(P))]),
            mdef('mid', [Q], body=[rep(2, It, 'leaf', ('+', I(Q), I(It)))]),
            lab(LBL), rep(2, I2, 'mid', ('+', I(LBL), ('*', I(I2), 4))), op(None, I(LBL))]


@skeleton('arity-overloading', 3, lambda s: s[0] != s[1])
def _s7(s):
    A, B, L = s
    return [mdef('m', [], body=[op(1, None)]),
            mdef('m', [A], body=[op(None, I(A))]),
            mdef('m', [A, B], body=[op(I(A), I(B))]),
            call('m'), call('m', 5), call('m', 6, 7), lab(L), call('m', I(L), ('+', I(L), 1)), call('m', I(L))]


@skeleton('globals-and-externs', 3, lambda s: distinct(*s))
def _s8(s):
    P, G, E = s
    return [mdef('m', [P], [], [G], [E], body=[lab(E), op(None, I(G)), op(None, I(P))]),
            lab(G), op(None, I(E)), call('m', 9), op(I(G), I(E))]


@skeleton('namespaces', 3, lambda s: distinct(*s))
def _s9(s):
    X, Y, Z = s
    m = mdef('N.m', [], [X], body=[lab(X), op(None, ident(f'N.{Y}', f'.{Y}')), op(None, I(X))])
    k = mdef('N.M.k', [], [X], body=[lab(X), op(None, ident(f'N.{Y}', f'..{Y}')), op(None, ident(f'N.M.{Z}', f'.{Z}')), op(I(X), None)])
    return [('ns', 'N', [m, lab(f'N.{Y}', Y), op(None, None), ('ns', 'M', [k, lab(f'N.M.{Z}', Z), op(None, ident(f'N.M.{Z}', f'.{Z}'))]),
                         call('N.m', spelling='.m'), call('N.M.k', spelling='.M.k')]),
            call('N.m'), call('N.M.k'), op(None, ident(f'N.{Y}')), op(ident(f'N.M.{Z}'), None)]


@skeleton('dollar', 1)
def _s10(s):
    P, = s
    return [mdef('m', [P], body=[op(None, I(P)), op(DOLLAR, DOLLAR), op(None, ('-', DOLLAR, I(P)))]),
            call('m', 7), call('m', 3), op(None, DOLLAR)]  # (`$` as an ARGUMENT is rejected by the assembler: outside the family)


@skeleton('local-passed-down-and-label-through-parameter', 3, lambda s: True)
def _s11(s):
    X, P, Q = s
    return [mdef('decl', [Q], body=[lab(Q), op(None, None)]),
            mdef('inner', [P], body=[op(None, I(P))]),
            mdef('outer', [], [X], body=[call('decl', I(X)), call('inner', I(X)), op(None, I(X))]),
            call('outer'), call('outer')]


@skeleton('rep-counts', 3, lambda s: True)
def _s12(s):
    N, It, P = s
    return [mdef('leaf', [P], body=[op(None, I(P))]),
            mdef('rr', [N], body=[rep(I(N), It, 'leaf', ('+', ('*', I(It), 8), I(N))), op(None, I(N))]),
            call('rr', 0), call('rr', 1), call('rr', 3)]


@skeleton('three-levels-same-names', 7, lambda s: s[0] != s[3] and s[1] != s[4] and s[2] != s[5])
def _s13(s):
    P1, P2, P3, X1, X2, X3, L = s
    return [mdef('l3', [P3], [X3], body=[lab(X3), op(None, I(P3)), op(None, I(X3))]),
            mdef('l2', [P2], [X2], body=[lab(X2), call('l3', I(P2)), call('l3', I(X2)), op(None, I(P2))]),
            mdef('l1', [P1], [X1], body=[lab(X1), call('l2', I(P1)), call('l2', I(X1)), op(I(X1), I(P1))]),
            lab(L), call('l1', I(L)), op(None, I(L))]


@skeleton('iterator-like-own-parameter-used-later', 3, lambda s: True)
def _s14(s):
    It, Q, L = s
    # the rep's iterator may be spelled like the macro's own parameter: it shadows it inside the rep arguments only
    return [mdef('leaf', ['p'], body=[op(None, I('p'))]),
            mdef('mid', [Q], ['t'], body=[rep(2, It, 'leaf', ('+', ('*', I(It), 4), 1)), lab('t'), op(None, I(Q)), op(I(Q), I('t'))]),
            lab(L), call('mid', ('+', I(L), 8)), op(None, I(L))]


@skeleton('relative-names-climbing-to-the-root', 2, lambda s: True)
def _s15(s):
    X, L = s
    # the same macro / label name exists at the root, in N and in N.M; `..X` inside N and `...X` inside N.M mean the ROOT one
    m_root = mdef(X + 'm', [], body=[op(1, None)])
    m_n = mdef(f'N.{X}m', [], body=[op(2, None)])
    m_nm = mdef(f'N.M.{X}m', [], body=[op(3, None)])
    inner = ('ns', 'M', [m_nm, lab(f'N.M.{L}', L), op(None, None),
                         call(X + 'm', spelling=f'...{X}m'), call(f'N.{X}m', spelling=f'..{X}m'), call(f'N.M.{X}m', spelling=f'.{X}m'),
                         op(ident(L, f'...{L}'), ident(f'N.{L}', f'..{L}')), op(None, ident(f'N.M.{L}', f'.{L}'))])
    return [m_root, lab(L), op(None, None),
            ('ns', 'N', [m_n, lab(f'N.{L}', L), op(None, None), inner,
                         call(X + 'm', spelling=f'..{X}m'), call(f'N.{X}m', spelling=f'.{X}m'),
                         op(ident(L, f'..{L}'), ident(f'N.{L}', f'.{L}'))]),
            call(X + 'm'), call(f'N.{X}m'), call(f'N.M.{X}m'), op(ident(L), ident(f'N.M.{L}'))]


@skeleton('rep-that-does-not-use-its-iterator', 4, lambda s: s[0] != s[1])
def _s16(s):
    P, It, L, X = s
    # the rep's arguments mention the enclosing macro's parameter but not the iterator; the caller passes a label (also inside an
    # expression, also two levels up) that may be spelled like that iterator
    return [mdef('leaf', [X], body=[op(None, I(X)), op(I(X), None)]),
            mdef('mid', [P], body=[rep(2, It, 'leaf', I(P)), rep(1, It, 'leaf', ('+', I(P), DW)), op(None, I(P))]),
            mdef('top', [X], body=[call('mid', ('+', I(X), ('*', 2, DW)))]),
            lab(L), call('mid', I(L)), call('top', I(L)), op(None, I(L))]


@skeleton('guarded-recursion', 4, lambda s: s[0] != s[1])
def _s17(s):
    P, X, It, L = s
    # a macro that is expanded while another expansion of itself is still in progress (recursion guarded by a rep count), with a
    # parameter and a local label used AFTER the inner expansion; and the same through a second macro (mutual recursion)
    more = ('>', I('n'), 0)
    return [mdef('rec', ['n', P], [X], body=[lab(X), rep(more, It, 'rec', ('-', I('n'), 1), ('+', I(P), DW)), op(None, I(P)), op(I(X), I(P))]),
            mdef('ra', ['n', P], body=[rep(more, It, 'rb', ('-', I('n'), 1), ('+', I(P), DW)), op(None, I(P))]),
            mdef('rb', ['n', P], [X], body=[lab(X), rep(more, It, 'ra', ('-', I('n'), 1), I(X)), op(I(P), I(X))]),
            lab(L), call('rec', 2, I(L)), call('ra', 3, I(L)), op(None, I(L))]


@skeleton('empty-expansion-before-a-sibling', 3, lambda s: True)
def _s18(s):
    P, It, L = s
    # an expansion that emits nothing (its only content is a rep of count 0) followed at the SAME address by a sibling call / a label
    return [mdef('leaf', [P], body=[op(None, I(P))]),
            mdef('nothing', [P], body=[rep(0, It, 'leaf', I(P))]),
            mdef('maybe', ['c', P], body=[rep(I('c'), It, 'leaf', ('+', I(P), I(It)))]),
            call('nothing', 1), call('leaf', 2), call('maybe', 0, 3), lab(L), call('maybe', 0, I(L)), call('maybe', 2, I(L)), call('nothing', I(L)),
            op(None, I(L))]


@skeleton('parameters-in-pad-and-wflip', 3, lambda s: True)
def _s19(s):
    P, L, It = s
    # arguments are substituted into EVERY statement kind of a macro body: the alignment of a pad, the address / value / return
    # address of a wflip - also through a nested call and a rep iterator; the caller's label may be spelled like the parameter
    return [mdef('padder', [P], body=[('pad', I(P)), op(None, None)]),
            mdef('wf', [P, 'v'], body=[('wflip', I(P), I('v'), None), ('wflip', ('+', I(P), W), ('+', I('v'), 1), I(P))]),
            mdef('both', [P, 'k'], body=[call('padder', I('k')), call('wf', I(P), ('*', I('k'), 3))]),
            lab(L), op(None, I(L)), call('padder', 2), call('padder', 4), call('wf', I(L), 5), call('both', I(L), 2),
            rep(2, It, 'padder', ('+', I(It), 1)), rep(2, It, 'wf', I(L), ('+', I(It), 6)), op(None, I(L))]


@skeleton('label-declared-through-a-parameter-by-several-expansions', 3, lambda s: True)
def _s20(s):
    Q, L1, L2 = s
    # a macro declares the label it is given; two expansions with the SAME label name declare it twice (the program has no image,
    # with or without macros), with different names it is fine. also through an extern label of a macro expanded twice
    return [mdef('decl', [Q], body=[lab(Q), op(None, I(Q))]),
            call('decl', I(L1)), call('decl', I(L2)), op(None, I(L1)), op(I(L2), None)]


@skeleton('rep-count-from-a-parameter', 3, lambda s: True)
def _s21(s):
    P, It, L = s
    # the repeat COUNT is computed from the macro's parameter (the only use of the parameter), the arguments use the iterator; the
    # iterator may be spelled like the parameter: inside the count the name still means the parameter
    return [mdef('leaf', ['x'], body=[op(None, I('x'))]),
            mdef('fill', [P], body=[rep(I(P), It, 'leaf', ('*', I(It), W))]),
            mdef('fill2', [P], ['t'], body=[lab('t'), rep(('-', I(P), 1), It, 'leaf', ('+', I('t'), I(It)))]),
            lab(L), call('fill', 2), call('fill2', 3), call('fill', 0), op(None, I(L))]


@skeleton('logic-operators-on-late-labels', 3, lambda s: True)
def _s22(s):
    P, L, It = s
    # && || ?: whose one operand is known at substitution time (an integer argument / the iterator) while the other is a label that is
    # resolved last: the value is the operator's 0/1 (or the selected branch), never the operand itself
    return [mdef('m', [P, 'en'], body=[op(None, ('&&', I('en'), I(P))), op(('||', ('-', I('en'), 1), I(P)), None),
                                       op(('?:', I('en'), I(P), 7), ('&&', I(P), I('en')))]),
            mdef('r', [P], body=[rep(2, It, 'leafl', ('||', I(It), I(P)))]),
            mdef('leafl', ['x'], body=[op(None, I('x'))]),
            op(None, None), op(None, None), lab(L), call('m', I(L), 1), call('m', I(L), 0), call('m', ('+', I(L), DW), 5), call('r', I(L)), op(None, I(L))]


@skeleton('rep-zero-of-an-undefined-macro', 3, lambda s: True)
def _s23(s):
    P, It, L = s
    # a rep whose count is 0 expands to nothing, so - like the inlined program, which has no statement there - it may name a macro, or an
    # arity of a macro, that is not defined: at top level, inside a macro, with the count computed from a parameter
    return [mdef('leaf', ['x'], body=[op(None, I('x'))]),
            mdef('spread', ['n', P], body=[call('leaf', I(P)), rep(('-', I('n'), 1), It, 'leaf', ('+', I(P), I(It)), I(P))]),
            mdef('opt', [P], body=[rep(0, It, 'nosuch', I(P), I(It)), op(None, I(P))]),
            lab(L), rep(0, It, 'nosuch', I(L)), call('spread', 1, I(L)), call('opt', I(L)), op(None, I(L))]


@skeleton('first-statement-is-a-call', 4, lambda s: s[0] != s[1])
def _s24(s):
    P, X, It, L = s
    # the program's first statement is a macro call (no source label at address 0), nested two deep, then a rep; the only label comes last
    return [mdef('leaf', [P], [X], body=[lab(X), op(None, I(P)), op(I(X), None)]),
            mdef('outer', [P], body=[call('leaf', I(P)), call('leaf', ('+', I(P), DW))]),
            call('outer', I(L)), rep(2, It, 'leaf', ('+', I(L), I(It))), lab(L), op(None, I(L))]


@skeleton('rep-iterator-vs-a-label-of-the-namespace', 3, lambda s: s[2] != s[1])   # (a PARAMETER is reachable as `.P` too: P == Y is ambiguous)
def _s25(s):
    It, Y, P = s
    # a rep inside a macro of namespace N whose arguments mention a label of N through its relative / full spelling: `.Y` and `N.Y` are the
    # label even when the iterator (or the macro's parameter) is spelled Y - only the bare name is the iterator
    leaf = mdef('N.leaf', ['x', 'y'], body=[op(I('x'), I('y'))])
    fill = mdef('N.fill', [P], body=[rep(2, It, 'N.leaf', ident(f'N.{Y}', f'.{Y}'), ('+', I(It), I(P)), spelling='.leaf'),
                                     rep(2, It, 'N.leaf', ('+', ident(f'N.{Y}', f'N.{Y}'), I(It)), I(P), spelling='.leaf')])
    return [('ns', 'N', [leaf, fill, lab(f'N.{Y}', Y), op(None, None), call('N.fill', 5, spelling='.fill')]),
            call('N.fill', ident(f'N.{Y}'))]


# skeletons whose programs raise no assembler warning for ANY assignment of the names (on the unchanged tree): they must also assemble
# with warnings treated as errors, which is the default of the fj command and of the API
WARNING_FREE = {'arity-overloading', 'dollar', 'globals-and-externs', 'guarded-recursion', 'iterator-like-own-parameter-used-later',
                'local-passed-down-and-label-through-parameter', 'local-vs-argument', 'nested-argument-capture', 'nested-rep',
                'param-vs-caller-label', 'parameters-in-pad-and-wflip', 'relative-names-climbing-to-the-root', 'rep-counts',
                'rep-iterator-vs-names', 'rep-that-does-not-use-its-iterator', 'three-levels-same-names', 'rep-count-from-a-parameter'}


def programs(pool=POOL):
    """yield (skeleton name, slots, program, collisions) for every well-formed assignment"""
    for name, n, wf, build in SKELETONS:
        for slots in itertools.product(pool, repeat=n):
            if not wf(slots):
                continue
            yield name, slots, build(slots), n - len(set(slots))
