"""Shared check driver: tiers/seeds, worker pool, violations -> replay files, known findings,
evidence files (validated before writing), exit codes.

Contract (see DESIGN.md section 8):
  exit 0  - the property held on everything explored (KNOWN-FINDING lines allowed)
  exit 1  - at least one `VIOLATION property=<id> replay=<path>` line
"""
import argparse
import json
import multiprocessing
import os
import signal
import sys
import time
import traceback
from pathlib import Path

from . import VERIF

EVIDENCE = Path(os.environ.get('FJV_EVIDENCE_DIR') or VERIF / 'evidence')   # tools/seedrun2.sh sends a seeded tree's evidence elsewhere
REPLAYS = VERIF / 'replays'
FINDINGS_FILE = VERIF / 'known_findings.json'

LEVELS = ('exploration', 'fault_enumeration', 'model_checking')
MAX_REPLAYS = 40  # replay files written per run (every violation is still counted)


def parse_args(prop: str, argv=None):
    ap = argparse.ArgumentParser(prog=f'checks.{prop}')
    ap.add_argument('--tier', choices=['quick', 'thorough'], default=os.environ.get('VERIF_TIER') or 'quick')
    ap.add_argument('--replay', default=None, help='re-run exactly one recorded case')
    ap.add_argument('--jobs', type=int, default=int(os.environ.get('VERIF_JOBS') or 0) or min(16, os.cpu_count() or 1))
    ap.add_argument('--only', default=None, help='restrict to a sub-family (check specific)')
    args = ap.parse_args(argv)
    if args.tier not in ('quick', 'thorough'):
        args.tier = 'quick'
    try:
        args.seed = int(os.environ.get('VERIF_SEED') or 0)
    except ValueError:
        args.seed = 0
    return args


class Watchdog(Exception):
    """raised by the SIGALRM handler: the implementation ran past the per-case time budget."""


def _alarm(signum, frame):
    raise Watchdog()


def install_watchdog():
    signal.signal(signal.SIGALRM, _alarm)
    signal.signal(signal.SIGPROF, _alarm)


class watchdog:
    """with watchdog(2.0): ... ; raises Watchdog inside the block if it runs too long.

    The budget is CPU time of this process (ITIMER_PROF): a loaded machine must never turn a correct run into a
    "does not terminate" verdict (a thorough C01 run once reported nine 1-second timeouts on a box saturated by other
    jobs). A wall-clock backstop of max(60 s, 30 x budget) catches code that blocks without using the CPU."""

    def __init__(self, seconds: float):
        self.seconds = seconds

    def __enter__(self):
        signal.setitimer(signal.ITIMER_PROF, self.seconds)
        signal.setitimer(signal.ITIMER_REAL, max(60.0, 30 * self.seconds))

    def __exit__(self, *a):
        signal.setitimer(signal.ITIMER_PROF, 0)
        signal.setitimer(signal.ITIMER_REAL, 0)
        return False


class Crash:
    """a worker process died (signal / abnormal exit) while running `task`."""

    def __init__(self, task, exitcode, detail=''):
        self.task, self.exitcode, self.detail = task, exitcode, detail

    def __repr__(self):
        return f'Crash(task={self.task!r}, exitcode={self.exitcode}, {self.detail})'


class WorkerError(Exception):
    pass


def _child(func, item, conn):
    install_watchdog()
    try:
        conn.send(('ok', func(item)))
    except BaseException:
        conn.send(('err', traceback.format_exc()))
    finally:
        conn.close()
        sys.stdout.flush()
        sys.stderr.flush()
        os._exit(0)


def pmap(func, items, jobs: int, chunksize: int = 1, on_crash='raise', task_timeout=None):
    """ordered parallel map; every task runs in its own forked child (children inherit the bound
    flipjump). a child that dies abnormally is noticed (no hang): on_crash='yield' yields a Crash
    object in its place, 'raise' raises WorkerError. task_timeout (s) kills a stuck child."""
    import multiprocessing.connection as mpc
    items = list(items)
    if jobs <= 1 and on_crash == 'raise' and task_timeout is None:
        install_watchdog()
        for it in items:
            yield func(it)
        return
    ctx = multiprocessing.get_context('fork')
    pending = list(enumerate(items))
    pending.reverse()
    running, results, nxt = {}, {}, 0
    try:
        while pending or running or nxt in results:
            while nxt in results:
                res = results.pop(nxt)
                nxt += 1
                if isinstance(res, Crash) and on_crash == 'raise':
                    raise WorkerError(repr(res))
                yield res
            while pending and len(running) < max(1, jobs):
                i, it = pending.pop()
                r, w = ctx.Pipe(False)
                sys.stdout.flush()
                sys.stderr.flush()
                p = ctx.Process(target=_child, args=(func, it, w))
                p.start()
                w.close()
                running[i] = (p, r, it, time.time())
            if not running:
                continue
            ready = mpc.wait([v[1] for v in running.values()], timeout=1.0)
            now = time.time()
            for i, (p, r, it, t0) in list(running.items()):
                if r in ready:
                    try:
                        kind, val = r.recv()
                    except (EOFError, OSError):
                        p.join(5)
                        kind, val = 'died', p.exitcode
                    r.close()
                    p.join(5)
                    del running[i]
                    if os.environ.get('FJV_TIMES') and now - t0 > float(os.environ['FJV_TIMES']):
                        print(f'[slow task {now - t0:.1f}s] {it!r}'[:200], file=sys.stderr)
                    if kind == 'ok':
                        results[i] = val
                    elif kind == 'err':
                        raise WorkerError(f'worker raised on task {it!r}:\n{val}')
                    else:
                        results[i] = Crash(it, val)
                elif task_timeout is not None and now - t0 > task_timeout:
                    p.kill()
                    p.join(5)
                    r.close()
                    del running[i]
                    results[i] = Crash(it, None, f'killed after {task_timeout}s')
    finally:
        for p, r, it, t0 in running.values():
            try:
                p.kill()
            except Exception:
                pass


def load_findings(prop: str):
    if not FINDINGS_FILE.exists():
        return []
    data = json.loads(FINDINGS_FILE.read_text())
    return [f for f in data.get('findings', []) if f.get('property') == prop]


class Sieve:
    """worker-side violation collector: known findings are only counted, the first `cap` other
    violations are kept in full, the rest are counted."""

    def __init__(self, prop, matchers=None, cap=30):
        self.findings = [f for f in load_findings(prop) if f.get('status') == 'known']
        self.matchers = matchers or {}
        self.cap = cap
        self.records, self.hits, self.extra, self.classes = [], {}, 0, {}

    def add(self, record):
        for f in self.findings:
            sig = f.get('signature', {})
            pred = self.matchers.get(sig.get('pred'))
            try:
                if pred is not None and pred(record, sig):
                    self.hits[f['id']] = self.hits.get(f['id'], 0) + 1
                    return False
            except Exception:
                continue
        ck = str(record.get('class') or record.get('kind'))
        self.classes[ck] = self.classes.get(ck, 0) + 1
        if len(self.records) < self.cap and self.classes[ck] <= 4:
            self.records.append(record)
        else:
            self.extra += 1
        return True

    def result(self):
        return (self.records, self.hits, self.extra, self.classes)


class Run:
    """one execution of one check."""

    def __init__(self, prop: str, level: str, args, matchers=None):
        assert level in LEVELS
        self.prop, self.level, self.args = prop, level, args
        self.t0 = time.time()
        self.violations = 0
        self.replays_written = 0
        self.known_hits = {}  # finding id -> count
        self.violation_classes = {}
        self.matchers = matchers or {}  # pred name -> callable(case_record, finding) -> bool
        self.findings = [f for f in load_findings(prop) if f.get('status') == 'known']
        self.fixed = [f for f in load_findings(prop) if f.get('status') == 'fixed']
        self.notes = []
        REPLAYS.mkdir(exist_ok=True)
        EVIDENCE.mkdir(exist_ok=True)
        from .enginecheck import scratch
        scratch()  # create the run's scratch root in the parent, so it is removed at exit

    # ---- violations ---------------------------------------------------------------
    def match_known(self, record: dict):
        for f in self.findings:
            sig = f.get('signature', {})
            pred = self.matchers.get(sig.get('pred'))
            try:
                if pred is not None and pred(record, sig):
                    return f
            except Exception:
                continue
        return None

    def report(self, record: dict):
        """record = {kind, case, expected, observed, [how_to_read]} - self-contained."""
        f = self.match_known(record)
        if f is not None:
            self.known_hits[f['id']] = self.known_hits.get(f['id'], 0) + 1
            return False
        self.violations += 1
        ck = str(record.get('class') or record.get('kind'))
        self._per_class = getattr(self, '_per_class', {})
        self._per_class[ck] = self._per_class.get(ck, 0) + 1
        if self.replays_written < MAX_REPLAYS and self._per_class[ck] <= 3:
            self.replays_written += 1
            n = self.replays_written
            path = REPLAYS / f'{self.prop}-{os.getpid()}-{n}.json'
            body = dict(property=self.prop, **record)
            path.write_text(json.dumps(body, indent=1, default=repr))
            print(f'VIOLATION property={self.prop} replay={path}', flush=True)
            summary = record.get('summary') or f"{record.get('kind')}: expected {str(record.get('expected'))[:200]} observed {str(record.get('observed'))[:200]}"
            print(f'  {summary}', flush=True)
        return True

    def report_all(self, records):
        for r in records:
            self.report(r)

    def merge(self, sieve_result):
        """fold a worker's Sieve.result() into this run."""
        records, hits, extra = sieve_result[:3]
        if len(sieve_result) > 3:
            for k, v in sieve_result[3].items():
                self.violation_classes[k] = self.violation_classes.get(k, 0) + v
        for k, v in hits.items():
            self.known_hits[k] = self.known_hits.get(k, 0) + v
        for r in records:
            self.report(r)
        self.violations += extra

    # ---- evidence -----------------------------------------------------------------
    def finish(self, coverage: dict, assumptions=None, extra=None) -> int:
        for f in self.findings:
            n = self.known_hits.get(f['id'], 0)
            if n:
                print(f"KNOWN-FINDING: property={self.prop} {f['id']}: {f['what']} ({n} explored cases hit it)")
        cov = dict(coverage)
        cov['known_finding_hits'] = dict(self.known_hits)
        if self.notes:
            cov['notes'] = self.notes
        if self.violation_classes:
            cov['violation_classes'] = dict(self.violation_classes)
            print('violation classes:', dict(sorted(self.violation_classes.items(), key=lambda kv: -kv[1])[:12]))
        ev = {
            'property_id': self.prop,
            'tier': self.args.tier,
            'seed': self.args.seed,
            'level': self.level,
            'coverage': cov,
            'assumptions': list(assumptions or []),
            'wall_s': round(time.time() - self.t0, 3),
            'violations': self.violations,
        }
        if extra:
            ev.update(extra)
        problems = validate_evidence(ev)
        if problems:
            print(f'EVIDENCE-INVALID property={self.prop}: {problems}', file=sys.stderr)
        (EVIDENCE / f'{self.prop}.json').write_text(json.dumps(ev, indent=1, default=repr))
        status = 'FAIL' if self.violations else 'ok'
        brief = {k: v for k, v in cov.items() if isinstance(v, (int, float, bool))}
        print(f'[{self.prop}] {status} tier={self.args.tier} seed={self.args.seed} violations={self.violations} '
              f'wall={ev["wall_s"]}s {brief}', flush=True)
        return 1 if self.violations or problems else 0


def validate_evidence(ev: dict):
    """hand-rolled mirror of /root/.vp/EVIDENCE.schema.json (jsonschema is not in /venv)."""
    bad = []
    for k in ('property_id', 'tier', 'seed', 'level', 'coverage', 'wall_s'):
        if k not in ev:
            bad.append(f'missing {k}')
    cov = ev.get('coverage', {})
    lvl = ev.get('level')

    def generic():
        if not (isinstance(cov.get('evaluations'), int) and cov['evaluations'] >= 1):
            bad.append('evaluations>=1')
        if not (isinstance(cov.get('distinct_nontrivial'), int) and cov['distinct_nontrivial'] >= 2):
            bad.append('distinct_nontrivial>=2')
        if not isinstance(cov.get('rule'), str):
            bad.append('rule')
        if not (isinstance(cov.get('samples'), list) and cov['samples']):
            bad.append('samples')

    if lvl in ('exploration', 'fault_enumeration'):
        generic()
    elif lvl == 'model_checking':
        for k in ('states', 'transitions'):
            if not (isinstance(cov.get(k), int) and cov[k] >= 1):
                bad.append(f'{k}>=1')
        if not (isinstance(cov.get('traces_validated_against_impl'), int) and cov['traces_validated_against_impl'] >= 0):
            bad.append('traces_validated_against_impl')
        if not (isinstance(cov.get('samples'), list) and cov['samples']):
            bad.append('samples')
    else:
        bad.append(f'level {lvl}')
    return bad


def load_replay(path: str) -> dict:
    return json.loads(Path(path).read_text())


def main_guard(fn):
    """run a check's main(); an internal crash of the machinery is exit 2 (never a VIOLATION line)."""
    try:
        code = fn()
    except SystemExit:
        raise
    except BaseException:
        traceback.print_exc()
        print('CHECK-INTERNAL-ERROR (this is a defect of the verification machinery, not a verdict)', file=sys.stderr)
        sys.exit(2)
    sys.exit(code)
