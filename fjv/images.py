"""Write an Image as an .fjm file (hand-packed, independent of the repository's Writer)."""
import struct

FJ_MAGIC = ord('F') + (ord('J') << 8)
FMT = {8: 'B', 16: 'H', 32: 'L', 64: 'Q'}


def pack_image(image, version=0) -> bytes:
    """version 0/1 only (plain words). every segment's data = its explicit words from its start
    up to the last explicit word (rounded up to an even count); the rest is the zero tail."""
    w = image.w
    segs, pool = [], []
    for start, length in image.segments:
        words = [k for k in image.data if start <= k < start + length]
        n = (max(words) - start + 1) if words else 0
        n += n & 1
        if n > length:
            n = length
        segs.append((start, length, len(pool), n))
        pool.extend(image.data.get(start + i, 0) for i in range(n))
    out = [struct.pack('<HHQQ', FJ_MAGIC, w, version, len(segs))]
    if version != 0:
        out.append(struct.pack('<QL', 0, 0))
    for s in segs:
        out.append(struct.pack('<QQQQ', *s))
    out.append(struct.pack(f'<{len(pool)}{FMT[w]}', *pool))
    return b''.join(out)
