"""R6 - reference functions of the stl data macros, transcribed from their doc-comment formulas
(`//   dst[:n] += src[:n]` style lines in flipjump/stl/**), as Python-int lambdas.

A spec entry: BlockSpec(name, call text, exits, model, operands)
  model(v) with v = {'a':..,'b':..,'c':..,'d':..}  ->  ({changed vars}, exit)   (unlisted vars unchanged)
  operands = the variables enumerated exhaustively for this block (the others hold sentinels).
"""
from .stlharness import BlockSpec


def sgn(x, bits):
    x &= (1 << bits) - 1
    return x - (1 << bits) if x >> (bits - 1) else x


def hex_specs(n):
    bits = 4 * n
    m = (1 << bits) - 1
    S = []

    def spec(name, call, exits, model, operands, doc=''):
        S.append(BlockSpec(name, call, exits, model, operands, doc=doc))

    ft = 'ft'
    A, AB = ('a',), ('a', 'b')
    k1, k2, k3 = 0xa5 & m, 0x3c & m, 0x1f & m
    k4 = (0x10 & m) if n > 1 else 3
    # ---- memory
    spec('zero', 'hex.zero {n}, a', [ft], lambda v: ({'a': 0}, ft), A, 'x[:n] = 0')
    spec('mov', 'hex.mov {n}, a, b', [ft], lambda v: ({'a': v['b']}, ft), AB, 'dst[:n] = src[:n]')
    spec('mov_self', 'hex.mov {n}, a, a', [ft], lambda v: ({}, ft), A, 'safe if they are the exact same address')
    spec('xor_by', f'hex.xor_by {{n}}, a, {k1}', [ft], lambda v: ({'a': v['a'] ^ k1}, ft), A, 'hex[:n] ^= val')
    spec('set', f'hex.set {{n}}, a, {k2}', [ft], lambda v: ({'a': k2}, ft), A, 'hex[:n] = val')
    spec('swap', 'hex.swap {n}, a, b', [ft], lambda v: ({'a': v['b'], 'b': v['a']}, ft), AB, 'hex1, hex2 = hex2, hex1')
    spec('swap_self', 'hex.swap {n}, a, a', [ft], lambda v: ({}, ft), A, 'safe if they are the exact same address')
    # ---- logic
    spec('xor_self', 'hex.xor {n}, a, a', [ft], lambda v: ({'a': 0}, ft), A, 'dst ^= dst')
    spec('xor', 'hex.xor {n}, a, b', [ft], lambda v: ({'a': v['a'] ^ v['b']}, ft), AB, 'dst[:n] ^= src[:n]')
    spec('xor_zero', 'hex.xor_zero {n}, a, b', [ft], lambda v: ({'a': v['a'] ^ v['b'], 'b': 0}, ft), AB, 'dst ^= src; src = 0')
    spec('or', 'hex.or {n}, a, b', [ft], lambda v: ({'a': v['a'] | v['b']}, ft), AB, 'dst[:n] |= src[:n]')
    spec('and', 'hex.and {n}, a, b', [ft], lambda v: ({'a': v['a'] & v['b']}, ft), AB, 'dst[:n] &= src[:n]')
    spec('or_self', 'hex.or {n}, a, a', [ft], lambda v: ({}, ft), A, 'dst |= dst')
    spec('and_self', 'hex.and {n}, a, a', [ft], lambda v: ({}, ft), A, 'dst &= dst')
    spec('not', 'hex.not {n}, a', [ft], lambda v: ({'a': v['a'] ^ m}, ft), A, 'x[:n] = !x[:n]')
    # ---- arithmetic
    spec('add', 'hex.add {n}, a, b', [ft], lambda v: ({'a': (v['a'] + v['b']) & m}, ft), AB, 'dst[:n] += src[:n]')
    spec('add_self', 'hex.add {n}, a, a', [ft], lambda v: ({'a': (2 * v['a']) & m}, ft), A, 'dst += dst')
    spec('sub', 'hex.sub {n}, a, b', [ft], lambda v: ({'a': (v['a'] - v['b']) & m}, ft), AB, 'dst[:n] -= src[:n]')
    spec('sub_self', 'hex.sub {n}, a, a', [ft], lambda v: ({'a': 0}, ft), A, 'dst -= dst')
    spec('add_constant', f'hex.add_constant {{n}}, a, {k3}', [ft], lambda v: ({'a': (v['a'] + k3) & m}, ft), A, 'dst[:n] += const')
    for kc in sorted({0xF0 & m, 0x10 & m, 0x800 & m, 0x0F00 & m, (m + 1) >> 1} - {0}):
        # constants whose low hexes are zero (the macro skips them) - also long ones that carry out of the top hex
        spec(f'add_constant_{kc:x}', f'hex.add_constant {{n}}, a, {kc}', [ft], lambda v, kc=kc: ({'a': (v['a'] + kc) & m}, ft), A, 'dst[:n] += const (zero low hexes)')
        spec(f'sub_constant_{kc:x}', f'hex.sub_constant {{n}}, a, {kc}', [ft], lambda v, kc=kc: ({'a': (v['a'] - kc) & m}, ft), A, 'dst[:n] -= const (zero low hexes)')
    spec('add_constant0', 'hex.add_constant {n}, a, 0', [ft], lambda v: ({}, ft), A, 'dst[:n] += 0')
    spec('sub_constant', f'hex.sub_constant {{n}}, a, {k4}', [ft], lambda v: ({'a': (v['a'] - k4) & m}, ft), A, 'dst[:n] -= const')
    if n > 1:
        spec('add_shifted', 'hex.add_shifted {n}, 1, a, b, 1', [ft], lambda v: ({'a': (v['a'] + ((v['b'] & 0xf) << 4)) & m}, ft), AB,
             'dst[:dst_n] += src[:src_n] << (4*hex_shift)')
        spec('sub_shifted', 'hex.sub_shifted {n}, 1, a, b, 1', [ft], lambda v: ({'a': (v['a'] - ((v['b'] & 0xf) << 4)) & m}, ft), AB,
             'dst[:dst_n] -= src[:src_n] << (4*hex_shift)')
        spec('shl_hex', 'hex.shl_hex {n}, a', [ft], lambda v: ({'a': (v['a'] << 4) & m}, ft), A, 'dst[:n] <<= 4')
        spec('shr_hex', 'hex.shr_hex {n}, a', [ft], lambda v: ({'a': v['a'] >> 4}, ft), A, 'dst[:n] >>= 4')
        spec('shl_hex_t', 'hex.shl_hex {n}, 1, a', [ft], lambda v: ({'a': (v['a'] << 4) & m}, ft), A, 'dst[:n] <<= 4*times')
        spec('shr_hex_t', 'hex.shr_hex {n}, 1, a', [ft], lambda v: ({'a': v['a'] >> 4}, ft), A, 'dst[:n] >>= 4*times')
        for t in (0, n - 1, n):
            spec(f'shl_hex_t{t}', f'hex.shl_hex {{n}}, {t}, a', [ft], lambda v, t=t: ({'a': (v['a'] << (4 * t)) & m}, ft), A, 'dst[:n] <<= 4*times')
            spec(f'shr_hex_t{t}', f'hex.shr_hex {{n}}, {t}, a', [ft], lambda v, t=t: ({'a': v['a'] >> (4 * t)}, ft), A, 'dst[:n] >>= 4*times')
        spec('sign_extend', 'hex.sign_extend {n}, 1, a', [ft], lambda v: ({'a': sgn(v['a'] & 0xf, 4) & m}, ft), A,
             'sign-extends hex[:signed_n] into hex[:full_n]')
    spec('inc', 'hex.inc {n}, a', [ft], lambda v: ({'a': (v['a'] + 1) & m}, ft), A, 'hex[:n]++')
    spec('dec', 'hex.dec {n}, a', [ft], lambda v: ({'a': (v['a'] - 1) & m}, ft), A, 'hex[:n]--')
    spec('neg', 'hex.neg {n}, a', [ft], lambda v: ({'a': (-v['a']) & m}, ft), A, 'x[:n] = -x[:n]')
    spec('abs', 'hex.abs {n}, a', [ft], lambda v: ({'a': abs(sgn(v['a'], bits)) & m}, ft), A, 'x[:n] = |x[:n]|')
    spec('shl_bit', 'hex.shl_bit {n}, a', [ft], lambda v: ({'a': (v['a'] << 1) & m}, ft), A, 'dst[:n] <<= 1')
    spec('shr_bit', 'hex.shr_bit {n}, a', [ft], lambda v: ({'a': v['a'] >> 1}, ft), A, 'dst[:n] >>= 1')
    small = ((n * 4).bit_length() + 3) // 4
    if small <= n:
        sm = (1 << (4 * small)) - 1
        spec('count_bits', 'hex.count_bits {n}, c, a', [ft], lambda v: ({'c': (v['c'] & ~sm) | bin(v['a']).count('1')}, ft), ('a', 'c'),
             'dst[:small_n] = x[:n].#on-bits')
    spec('mul', 'hex.mul {n}, c, a, b', [ft], lambda v: ({'c': (v['a'] * v['b']) & m}, ft), AB, 'res[:n] = a[:n] * b[:n]')
    spec('mul_square', 'hex.mul {n}, c, a, a', [ft], lambda v: ({'c': (v['a'] * v['a']) & m}, ft), A, 'res = a * a (both factors are the same vector; used by the catalog programs)')
    spec('mul10', 'hex.mul10 {n}, a', [ft], lambda v: ({'a': (v['a'] * 10) & m}, ft), A, 'x[n] *= 10')
    spec('add_mul', 'hex.add_mul {n}, c, a, b', [ft], lambda v: ({'c': (v['c'] + v['a'] * (v['b'] & 0xf)) & m}, ft), ('a', 'b', 'c'),
         'res[n] += a[n] * b[1]')
    # ---- conditional jumps
    spec('if', 'hex.if {n}, a, {x[l0]}, {x[l1]}', ['ft', 'l0', 'l1'], lambda v: ({}, 'l0' if v['a'] == 0 else 'l1'), A, 'if hex[:n]==0 goto l0, else goto l1')
    spec('if0', 'hex.if0 {n}, a, {x[l0]}', ['ft', 'l0'], lambda v: ({}, 'l0' if v['a'] == 0 else 'ft'), A, 'if hex[:n]==0 goto l0, else continue')
    spec('if1', 'hex.if1 {n}, a, {x[l1]}', ['ft', 'l1'], lambda v: ({}, 'l1' if v['a'] != 0 else 'ft'), A, 'if hex[:n]!=0 goto l1, else continue')
    spec('sign', 'hex.sign {n}, a, {x[neg]}, {x[zpos]}', ['ft', 'neg', 'zpos'], lambda v: ({}, 'neg' if sgn(v['a'], bits) < 0 else 'zpos'), A,
         'if number[:n] < 0 jump to neg, else jump to zpos')
    spec('cmp', 'hex.cmp {n}, a, b, {x[lt]}, {x[eq]}, {x[gt]}', ['ft', 'lt', 'eq', 'gt'],
         lambda v: ({}, 'lt' if v['a'] < v['b'] else 'eq' if v['a'] == v['b'] else 'gt'), AB, 'compares a[:n] to b[:n]')
    spec('cmp_self', 'hex.cmp {n}, a, a, {x[lt]}, {x[eq]}, {x[gt]}', ['ft', 'lt', 'eq', 'gt'], lambda v: ({}, 'eq'), A, 'compares a to itself')
    spec('scmp', 'hex.scmp {n}, a, b, {x[lt]}, {x[eq]}, {x[gt]}', ['ft', 'lt', 'eq', 'gt'],
         lambda v: ({}, 'lt' if sgn(v['a'], bits) < sgn(v['b'], bits) else 'eq' if v['a'] == v['b'] else 'gt'), AB, 'signed compare')
    spec('min', 'hex.min {n}, c, a, b', [ft], lambda v: ({'c': min(v['a'], v['b'])}, ft), AB, 'dst[:n] = min(a[:n], b[:n])')
    spec('max', 'hex.max {n}, c, a, b', [ft], lambda v: ({'c': max(v['a'], v['b'])}, ft), AB, 'dst[:n] = max(a[:n], b[:n])')
    spec('if_flags', 'hex.if_flags a, 0x8421, {x[l0]}, {x[l1]}', ['ft', 'l0', 'l1'], lambda v: ({}, 'l1' if (0x8421 >> (v['a'] & 0xf)) & 1 else 'l0'), A,
         'if flags&(1<<hex) jump to l1 else l0')
    # ---- division
    def div(v):
        a, b = v['a'], v['b']
        if b == 0:
            return ({}, 'div0')
        return ({'c': a // b, 'd': a % b}, ft)
    spec('div', 'hex.div {n}, {n}, c, d, a, b, {x[div0]}', ['ft', 'div0'], div, AB, 'q = a/b ; r = a%b (unsigned); b==0: goto div0')

    def idiv(opt):
        def f(v):
            a, b = sgn(v['a'], bits), sgn(v['b'], bits)
            if b == 0:
                return ({}, 'div0')
            if opt == 0:
                q, r = a // b, a % b
            elif opt == 1:
                q = abs(a) // abs(b)
                if (a < 0) != (b < 0):
                    q = -q
                r = a - q * b
            else:
                r = a % abs(b)
                q = (a - r) // b
            return ({'c': q & m, 'd': r & m}, ft)
        return f
    for opt in (0, 1, 2):
        spec(f'idiv{opt}', f'hex.idiv {{n}}, {{n}}, c, d, a, b, {{x[div0]}}, {opt}', ['ft', 'div0'], idiv(opt), AB,
             'signed division; sign(r) by rem_opt; a == q*b + r')
    spec('idiv_badopt', 'hex.idiv {n}, {n}, c, d, a, b, {x[div0]}, 3', ['ft', 'div0'], lambda v: ({}, 'div0'), AB, 'any other rem_opt jumps to div0')

    def aliased(model, q, r):
        def f(v):
            ch, ex = model(v)
            out = {}
            if 'c' in ch:
                out[q] = ch['c']
            if 'd' in ch:
                out[r] = ch['d']
            return out, ex
        return f
    # (hex.idiv negates a and b in place around the unsigned division, so its outputs cannot alias the inputs: not enumerated)
    for q, r in (('a', 'd'), ('c', 'a'), ('b', 'd'), ('c', 'b'), ('a', 'b'), ('b', 'a')):
        spec(f'div_q{q}_r{r}', f'hex.div {{n}}, {{n}}, {q}, {r}, a, b, {{x[div0]}}', ['ft', 'div0'], aliased(div, q, r), AB, 'in place: q / r is an input vector')
    return S


def hex1_specs():
    """single-hex forms (no n parameter)."""
    S = []

    def spec(name, call, exits, model, operands, doc=''):
        S.append(BlockSpec(name, call, exits, model, operands, doc=doc))
    ft = 'ft'
    A, AB = ('a',), ('a', 'b')
    spec('h_zero', 'hex.zero a', [ft], lambda v: ({'a': 0}, ft), A, 'hex = 0')
    spec('h_mov', 'hex.mov a, b', [ft], lambda v: ({'a': v['b']}, ft), AB, 'dst = src')
    spec('h_xor', 'hex.xor a, b', [ft], lambda v: ({'a': v['a'] ^ v['b']}, ft), AB, 'dst ^= src')
    spec('h_xor_zero', 'hex.xor_zero a, b', [ft], lambda v: ({'a': v['a'] ^ v['b'], 'b': 0}, ft), AB, 'dst ^= src; src = 0')
    spec('h_double_xor', 'hex.double_xor a, c, b', [ft], lambda v: ({'a': v['a'] ^ v['b'], 'c': v['c'] ^ v['b']}, ft), ('a', 'b', 'c'), 'dst1 ^= src; dst2 ^= src')
    spec('h_xor_by', 'hex.xor_by a, 9', [ft], lambda v: ({'a': v['a'] ^ 9}, ft), A, 'hex ^= val')
    spec('h_set', 'hex.set a, 6', [ft], lambda v: ({'a': 6}, ft), A, 'hex = val')
    spec('h_swap', 'hex.swap a, b', [ft], lambda v: ({'a': v['b'], 'b': v['a']}, ft), AB, 'swap')
    spec('h_not', 'hex.not a', [ft], lambda v: ({'a': v['a'] ^ 15}, ft), A, 'hex = !hex')
    spec('h_or', 'hex.or a, b', [ft], lambda v: ({'a': v['a'] | v['b']}, ft), AB, 'dst |= src')
    spec('h_and', 'hex.and a, b', [ft], lambda v: ({'a': v['a'] & v['b']}, ft), AB, 'dst &= src')
    spec('h_if', 'hex.if a, {x[l0]}, {x[l1]}', ['ft', 'l0', 'l1'], lambda v: ({}, 'l0' if v['a'] == 0 else 'l1'), A, 'if hex==0 goto l0 else l1')
    spec('h_if0', 'hex.if0 a, {x[l0]}', ['ft', 'l0'], lambda v: ({}, 'l0' if v['a'] == 0 else 'ft'), A, '')
    spec('h_if1', 'hex.if1 a, {x[l1]}', ['ft', 'l1'], lambda v: ({}, 'l1' if v['a'] != 0 else 'ft'), A, '')
    spec('h_cmp', 'hex.cmp a, b, {x[lt]}, {x[eq]}, {x[gt]}', ['ft', 'lt', 'eq', 'gt'],
         lambda v: ({}, 'lt' if v['a'] < v['b'] else 'eq' if v['a'] == v['b'] else 'gt'), AB, 'compare hexes')
    spec('h_inc1', 'hex.inc1 a, {x[c0]}, {x[c1]}', ['ft', 'c0', 'c1'], lambda v: ({'a': (v['a'] + 1) & 15}, 'c1' if v['a'] == 15 else 'c0'), A,
         'hex++ (overflow: carry1 else carry0)')
    spec('h_dec1', 'hex.dec1 a, {x[b0]}, {x[b1]}', ['ft', 'b0', 'b1'], lambda v: ({'a': (v['a'] - 1) & 15}, 'b1' if v['a'] == 0 else 'b0'), A,
         'hex-- (underflow: borrow1 else borrow0)')
    spec('h_add_count_bits', 'hex.add_count_bits 1, a, b', [ft], lambda v: ({'a': (v['a'] + bin(v['b']).count('1')) & 15}, ft), AB,
         'dst[:n] += src.#on-bits')
    return S


def bit_specs(n):
    m = (1 << n) - 1
    S = []

    def spec(name, call, exits, model, operands, doc=''):
        S.append(BlockSpec(name, call, exits, model, operands, doc=doc))
    ft = 'ft'
    A, AB = ('a',), ('a', 'b')
    spec('zero', 'bit.zero {n}, a', [ft], lambda v: ({'a': 0}, ft), A, 'x[:n] = 0')
    spec('one', 'bit.one {n}, a', [ft], lambda v: ({'a': m}, ft), A, 'x[:n] = (1<<n)-1')
    spec('mov', 'bit.mov {n}, a, b', [ft], lambda v: ({'a': v['b']}, ft), AB, 'dst[:n] = src[:n]')
    spec('mov_self', 'bit.mov {n}, a, a', [ft], lambda v: ({}, ft), A, 'dst = dst')
    spec('swap', 'bit.swap {n}, a, b', [ft], lambda v: ({'a': v['b'], 'b': v['a']}, ft), AB, 'a, b = b, a')
    spec('swap_self', 'bit.swap {n}, a, a', [ft], lambda v: ({}, ft), A, 'a, a = a, a (in-place reversals swap the middle element with itself)')
    spec('xor_self', 'bit.xor {n}, a, a', [ft], lambda v: ({'a': 0}, ft), A, 'dst ^= dst (the stl zeroes a bit this way)')
    # (bit.sub n, a, a does not give 0 on the unchanged library - it negates src in place around an add: not enumerated)
    spec('cmp_self', 'bit.cmp {n}, a, a, {x[lt]}, {x[eq]}, {x[gt]}', ['ft', 'lt', 'eq', 'gt'], lambda v: ({}, 'eq'), A, 'compares a to itself')
    spec('xor', 'bit.xor {n}, a, b', [ft], lambda v: ({'a': v['a'] ^ v['b']}, ft), AB, 'dst[:n] ^= src[:n]')
    spec('xor_zero', 'bit.xor_zero {n}, a, b', [ft], lambda v: ({'a': v['a'] ^ v['b'], 'b': 0}, ft), AB, 'dst ^= src; src = 0')
    spec('or', 'bit.or {n}, a, b', [ft], lambda v: ({'a': v['a'] | v['b']}, ft), AB, 'dst[:n] |= src[:n]')
    spec('and', 'bit.and {n}, a, b', [ft], lambda v: ({'a': v['a'] & v['b']}, ft), AB, 'dst[:n] &= src[:n]')
    spec('or_self', 'bit.or {n}, a, a', [ft], lambda v: ({}, ft), A, '')
    spec('and_self', 'bit.and {n}, a, a', [ft], lambda v: ({}, ft), A, '')
    spec('not', 'bit.not {n}, a', [ft], lambda v: ({'a': v['a'] ^ m}, ft), A, 'dst[:n] ^= (1<<n)-1')
    spec('if', 'bit.if {n}, a, {x[l0]}, {x[l1]}', ['ft', 'l0', 'l1'], lambda v: ({}, 'l0' if v['a'] == 0 else 'l1'), A, '')
    spec('if0', 'bit.if0 {n}, a, {x[l0]}', ['ft', 'l0'], lambda v: ({}, 'l0' if v['a'] == 0 else 'ft'), A, '')
    spec('if1', 'bit.if1 {n}, a, {x[l1]}', ['ft', 'l1'], lambda v: ({}, 'l1' if v['a'] != 0 else 'ft'), A, '')
    spec('cmp', 'bit.cmp {n}, a, b, {x[lt]}, {x[eq]}, {x[gt]}', ['ft', 'lt', 'eq', 'gt'],
         lambda v: ({}, 'lt' if v['a'] < v['b'] else 'eq' if v['a'] == v['b'] else 'gt'), AB, '')
    spec('shr', 'bit.shr {n}, a', [ft], lambda v: ({'a': v['a'] >> 1}, ft), A, 'x[:n] >>= 1')
    spec('shl', 'bit.shl {n}, a', [ft], lambda v: ({'a': (v['a'] << 1) & m}, ft), A, 'x[:n] <<= 1')
    if n >= 3:
        spec('shr2', 'bit.shr {n}, 2, a', [ft], lambda v: ({'a': v['a'] >> 2}, ft), A, 'x[:n] >>= times')
        spec('shra2', 'bit.shra {n}, 2, a', [ft], lambda v: ({'a': (sgn(v['a'], n) >> 2) & m}, ft), A, 'arithmetic shift right')
        spec('shl2', 'bit.shl {n}, 2, a', [ft], lambda v: ({'a': (v['a'] << 2) & m}, ft), A, 'x[:n] <<= times')
    for t in sorted({0, 1, n - 1, n} - {-1}):
        if t > n:
            continue
        spec(f'shr_t{t}', f'bit.shr {{n}}, {t}, a', [ft], lambda v, t=t: ({'a': v['a'] >> t}, ft), A, 'x[:n] >>= times (times <= n)')
        spec(f'shl_t{t}', f'bit.shl {{n}}, {t}, a', [ft], lambda v, t=t: ({'a': (v['a'] << t) & m}, ft), A, 'x[:n] <<= times (times <= n)')
        if t < n:
            spec(f'shra_t{t}', f'bit.shra {{n}}, {t}, a', [ft], lambda v, t=t: ({'a': (sgn(v['a'], n) >> t) & m}, ft), A, 'arithmetic shift right by times')
    spec('ror', 'bit.ror {n}, a', [ft], lambda v: ({'a': ((v['a'] >> 1) | ((v['a'] & 1) << (n - 1))) & m}, ft), A, 'rotate right')
    spec('rol', 'bit.rol {n}, a', [ft], lambda v: ({'a': ((v['a'] << 1) | (v['a'] >> (n - 1))) & m}, ft), A, 'rotate left')
    spec('inc', 'bit.inc {n}, a', [ft], lambda v: ({'a': (v['a'] + 1) & m}, ft), A, 'x[:n]++')
    spec('dec', 'bit.dec {n}, a', [ft], lambda v: ({'a': (v['a'] - 1) & m}, ft), A, 'x[:n]--')
    spec('neg', 'bit.neg {n}, a', [ft], lambda v: ({'a': (-v['a']) & m}, ft), A, 'x[:n] = -x[:n]  (the doc line says x[:n]-- : finding F11)')
    spec('add', 'bit.add {n}, a, b', [ft], lambda v: ({'a': (v['a'] + v['b']) & m}, ft), AB, 'dst[:n] += src[:n]')
    spec('add_self', 'bit.add {n}, a, a', [ft], lambda v: ({'a': (2 * v['a']) & m}, ft), A, '')
    spec('sub', 'bit.sub {n}, a, b', [ft], lambda v: ({'a': (v['a'] - v['b']) & m}, ft), AB, 'dst[:n] -= src[:n]')
    spec('mul', 'bit.mul {n}, a, b', [ft], lambda v: ({'a': (v['a'] * v['b']) & m}, ft), AB, 'dst[:n] *= src[:n]')
    spec('mul_self', 'bit.mul {n}, a, a', [ft], lambda v: ({'a': (v['a'] * v['a']) & m}, ft), A, 'squaring is safe with mul')
    spec('mul_loop', 'bit.mul_loop {n}, a, b', [ft], lambda v: ({'a': (v['a'] * v['b']) & m}, ft), AB, 'dst[:n] *= src[:n]')
    spec('mul10', 'bit.mul10 {n}, a', [ft], lambda v: ({'a': (v['a'] * 10) & m}, ft), A, 'x[:n] *= 10')
    if n >= 4:
        spec('div10', 'bit.div10 {n}, c, a', [ft], lambda v: ({'c': v['a'] // 10, 'a': v['a'] % 10}, ft), A, 'dst, src = src/10, src%10')

    def div(v):
        if v['b'] == 0:
            return ({}, ft)
        return ({'c': v['a'] // v['b'], 'd': v['a'] % v['b']}, ft)

    def idiv(v):
        a, b = sgn(v['a'], n), sgn(v['b'], n)
        if b == 0:
            return ({}, ft)
        q = abs(a) // abs(b)
        if (a < 0) != (b < 0):
            q = -q
        return ({'c': q & m, 'd': (a - q * b) & m}, ft)
    spec('div', 'bit.div {n}, a, b, c, d', [ft], div, AB, 'if b==0 do nothing; q = a/b; r = a%b')
    spec('div_loop', 'bit.div_loop {n}, a, b, c, d', [ft], div, AB, '')
    spec('idiv', 'bit.idiv {n}, a, b, c, d', [ft], idiv, AB, 'signed; sign(r)==sign(a)')
    spec('idiv_loop', 'bit.idiv_loop {n}, a, b, c, d', [ft], idiv, AB, '')

    # in-place forms: an output vector is one of the inputs (x /= d, x %= d); kept where the unchanged library computes them
    def aliased(model, q, r):
        def f(v):
            ch, ex = model(v)
            out = {}
            if 'c' in ch:
                out[q] = ch['c']
            if 'd' in ch:
                out[r] = ch['d']
            return out, ex
        return f
    # (bit.idiv / idiv_loop negate a and b in place around the unsigned division, so their outputs cannot alias the inputs: not enumerated)
    for mac, model in (('div', div), ('div_loop', div)):
        for q, r in (('a', 'd'), ('c', 'a'), ('b', 'd'), ('c', 'b'), ('a', 'b'), ('b', 'a')):
            spec(f'{mac}_q{q}_r{r}', f'bit.{mac} {{n}}, a, b, {q}, {r}', [ft], aliased(model, q, r), AB, 'in place: the quotient / remainder vector is an input vector')
    return S


def bit1_specs():
    S = []

    def spec(name, call, exits, model, operands, doc=''):
        S.append(BlockSpec(name, call, exits, model, operands, doc=doc))
    ft = 'ft'
    A, AB = ('a',), ('a', 'b')
    spec('b_zero', 'bit.zero a', [ft], lambda v: ({'a': 0}, ft), A)
    spec('b_one', 'bit.one a', [ft], lambda v: ({'a': 1}, ft), A)
    spec('b_mov', 'bit.mov a, b', [ft], lambda v: ({'a': v['b']}, ft), AB)
    spec('b_swap', 'bit.swap a, b', [ft], lambda v: ({'a': v['b'], 'b': v['a']}, ft), AB)
    spec('b_xor', 'bit.xor a, b', [ft], lambda v: ({'a': v['a'] ^ v['b']}, ft), AB)
    spec('b_xor_zero', 'bit.xor_zero a, b', [ft], lambda v: ({'a': v['a'] ^ v['b'], 'b': 0}, ft), AB)
    spec('b_or', 'bit.or a, b', [ft], lambda v: ({'a': v['a'] | v['b']}, ft), AB)
    spec('b_and', 'bit.and a, b', [ft], lambda v: ({'a': v['a'] & v['b']}, ft), AB)
    spec('b_not', 'bit.not a', [ft], lambda v: ({'a': v['a'] ^ 1}, ft), A)
    spec('b_if', 'bit.if a, {x[l0]}, {x[l1]}', ['ft', 'l0', 'l1'], lambda v: ({}, 'l0' if v['a'] == 0 else 'l1'), A)
    spec('b_if0', 'bit.if0 a, {x[l0]}', ['ft', 'l0'], lambda v: ({}, 'l0' if v['a'] == 0 else 'ft'), A)
    spec('b_if1', 'bit.if1 a, {x[l1]}', ['ft', 'l1'], lambda v: ({}, 'l1' if v['a'] else 'ft'), A)
    spec('b_cmp', 'bit.cmp a, b, {x[lt]}, {x[eq]}, {x[gt]}', ['ft', 'lt', 'eq', 'gt'],
         lambda v: ({}, 'lt' if v['a'] < v['b'] else 'eq' if v['a'] == v['b'] else 'gt'), AB)
    # inc1 / add1: 'carry is both input and output' (file header): dst += carry (+ src), carry = the overflow
    spec('b_inc1', 'bit.inc1 a, b', [ft], lambda v: ({'a': (v['a'] + v['b']) & 1, 'b': (v['a'] + v['b']) >> 1}, ft), AB, '{carry:dst}++ with carry as input and output')
    spec('b_add1', 'bit.add1 a, b, c', [ft],
         lambda v: ({'a': (v['a'] + v['b'] + v['c']) & 1, 'c': (v['a'] + v['b'] + v['c']) >> 1}, ft), ('a', 'b', 'c'), '{carry:dst} += src with carry as input and output')
    return S
