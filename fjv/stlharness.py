"""Explicit-state harness for stl macro blocks (C04 / C05 / C08 / C09).

One assembled program holds the stl init area, declared variables and one *block* per macro form:
    blk_<name>:  <macro call>
    X_<name>_<exit>:  stl.loop          (one per documented exit; `ft` = fall-through)
A transition pokes the variables, runs the working-tree native engine from the block's entry
(`Memory.run(start_ip=...)`, no Python loop involved) and identifies the exit taken from the last
executed op. After every transition the WHOLE memory image (flat snapshot, one memcpy) is compared
with the baseline image: outside the variables (which must equal the model), the block's own
region (its scratch = the residue, part of the explored state) and the four null-sink / IO words,
every word must be unchanged.
"""
import ctypes
import hashlib
import signal

from .runner import Watchdog


class BlockSpec:
    """call: macro call text (uses variable names / X_<exit> labels via {x[exit]}); exits: names;
    model(vals dict) -> (new vals dict, exit name)  or None when the inputs are outside the macro's domain."""

    def __init__(self, name, call, exits, model, operands, consts=None, doc=''):
        self.name, self.call, self.exits, self.model, self.operands, self.doc = name, call, list(exits), model, operands, doc
        self.consts = consts or {}


class Harness:
    def __init__(self, w, ns, n, variables, blocks, wd, init='all', stack=None, extra_decl='', build='verif', tag='h'):
        """variables: list of (name, cells[, bits per cell[, (boundary_bits, cell index)]]) - each a hex.vec / bit.vec of `cells` cells;
        the optional 4th element places cell `index` of the variable at a multiple of `boundary_bits`."""
        from .bind import bind
        from .asm import assemble_text
        from flipjump.fjm.fjm_reader import Reader
        from flipjump.utils.functions import load_debugging_labels
        self.core = bind(build)
        self.w, self.ns, self.n = w, ns, n
        self.ww = w.bit_length() - 1
        self.shift = w.bit_length()  # dbit - w
        self.cellbits = 4 if ns == 'hex' else 1
        self.variables = [(v[0], v[1]) for v in variables]
        self.var_bits = {v[0]: (v[2] if len(v) > 2 else self.cellbits) for v in variables}
        self.blocks = {b.name: b for b in blocks}
        lines = []
        placed = init if isinstance(init, tuple) else None   # ('placed', [hex table macros in allocation order], filler ops)
        if init == 'all':
            lines.append('stl.startup_and_init_all' + (f' {stack}' if stack else ''))
        elif init == 'pointers':
            lines.append('stl.startup_and_init_pointers')
        else:
            lines.append('stl.startup')
        lines.append('stl.loop')
        self.var_align = {v[0]: v[3] for v in variables if len(v) > 3 and v[3]}
        for name, cells in self.variables:
            if name in self.var_align:
                # place the variable so that its cell `idx` starts at a multiple of `boundary` bits (a carry boundary of pointer arithmetic)
                boundary, idx = self.var_align[name]
                ops = boundary // (2 * w)
                lines.append(f'pad {ops}')
                lines.append(f'    hex.vec {ops - idx}, 0')
            lines.append(f'{name}:')
            decl_ns = 'bit' if self.var_bits[name] == 1 else 'hex'
            lines.append(f'    {decl_ns}.vec {cells}, 0')
        if extra_decl:
            lines.append(extra_decl)
        for b in blocks:
            exits = {e: f'X_{b.name}_{e}' for e in b.exits}
            lines.append(f'blk_{b.name}:')
            lines.append('    ' + b.call.format(x=exits, n=n))
            for e in b.exits:
                lines.append(f'X_{b.name}_{e}:')
                lines.append('    stl.loop')
        lines.append('blk__end:')
        lines.append('    stl.loop')
        if placed:
            # the library's tables allocated one by one (as each macro's documentation allows), in the given order, `filler` ops after a
            # 1024-op boundary: every table is met at several placements relative to its own alignment
            lines.append('pad 1024')
            if placed[2]:
                lines.append(f'rep({placed[2]}, i) stl.fj 0, 0')
            lines.append('hex.tables.init_shared')
            lines.extend(f'hex.{t}.init' for t in placed[1])
        self.text = '\n'.join(lines) + '\n'
        out, dbg = wd / f'{tag}.fjm', wd / f'{tag}.fjd'
        assemble_text(self.text, out, wd, w=w, version=1, use_stl=True, werror=False, debug_path=dbg)
        self.labels = load_debugging_labels(dbg)
        r = Reader(out)
        self.reader = r
        self.mem = self.core.Memory(w)
        for seg in r.memory_segments:
            self.mem.add_segment(seg.segment_start, seg.segment_length)
        for addr in sorted(r.memory):
            self.mem.set_word(addr, r.memory[addr])
        self.io_out = []
        self.io_in = []
        self._install_snapshot()
        # force the storage decision (flat) with a trivial run: the program's own entry halts immediately
        signal.signal(signal.SIGALRM, self._alarm)
        signal.signal(signal.SIGPROF, self._alarm)
        self._run(0)
        self.baseline = self.snapshot()
        self.current = self.baseline  # the last accepted image (other blocks' residues included)
        self.var_addr = {name: self.labels[name] // w for name, _ in self.variables}
        self.var_cells = dict(self.variables)
        order = sorted((self.labels[f'blk_{b.name}'] // w, b.name) for b in blocks) + [(self.labels['blk__end'] // w, '_end')]
        self.region = {}
        for (lo, name), (hi, _) in zip(order, order[1:]):
            self.region[name] = (lo, hi)
        self.exit_of = {}
        for b in blocks:
            for e in b.exits:
                self.exit_of[self.labels[f'X_{b.name}_{e}']] = (b.name, e)
        self.transitions = 0

    # ---- engine plumbing
    @staticmethod
    def _alarm(signum, frame):
        raise Watchdog()

    def _install_snapshot(self):
        self._snap = None
        try:
            lib = ctypes.PyDLL(self.core.__file__)
            fn = lib.fjverif_flat_snapshot
            fn.restype = ctypes.py_object
            fn.argtypes = [ctypes.py_object]
            self._snap = fn
        except (OSError, AttributeError):
            self._snap = None  # fall back to get_word read-back (slower, same verdicts)

    def snapshot(self) -> bytes:
        if self._snap is not None:
            s = self._snap(self.mem)
            if s is not None:
                return s
        hi = max(seg.segment_start + seg.segment_length for seg in self.reader.memory_segments)
        out = bytearray()
        for wa in range(hi):
            try:
                v = self.mem.get_word(wa)
            except Exception:  # noqa
                v = 0
            out += int(v & ((1 << 64) - 1)).to_bytes(8, 'little')
        return bytes(out)

    def _read_bit(self):
        if not self.io_in:
            raise EOFError()
        return self.io_in.pop(0)

    def _write_bit(self, b):
        self.io_out.append(1 if b else 0)

    def _run(self, start_ip, timeout=5.0):
        # CPU-time budget (a loaded machine must not look like a non-terminating block) + a wall-clock backstop
        signal.setitimer(signal.ITIMER_PROF, timeout)
        signal.setitimer(signal.ITIMER_REAL, max(60.0, 30 * timeout))
        try:
            return self.mem.run(self._read_bit, self._write_bit, EOFError, last_ops_length=1, start_ip=start_ip)
        finally:
            signal.setitimer(signal.ITIMER_PROF, 0)
            signal.setitimer(signal.ITIMER_REAL, 0)

    # ---- variables
    def poke(self, name, value):
        base = self.var_addr[name]
        cb = self.var_bits[name]
        mask = (1 << cb) - 1
        for i in range(self.var_cells[name]):
            self.mem.set_word(base + 2 * i + 1, ((value >> (cb * i)) & mask) << self.shift)

    def poke_word(self, wa, value):
        self.mem.set_word(wa, value)

    def peek(self, snap, name):
        """-> (value, clean) - clean: every non-data bit of the variable's words equals the baseline"""
        base = self.var_addr[name]
        cb = self.var_bits[name]
        mask = (1 << cb) - 1
        v = 0
        clean = True
        for i in range(self.var_cells[name]):
            off = (base + 2 * i) * 8
            fw = int.from_bytes(snap[off:off + 8], 'little')
            jw = int.from_bytes(snap[off + 8:off + 16], 'little')
            v |= ((jw >> self.shift) & mask) << (cb * i)
            if fw != 0 or jw & ~(mask << self.shift):
                clean = False
        return v, clean

    def word(self, snap, wa):
        return int.from_bytes(snap[wa * 8:wa * 8 + 8], 'little')

    def _diff_words(self, x, y):
        """word indexes where the two images differ (chunked scan)."""
        out = []
        n = len(x)
        step = 4096
        for off in range(0, n, step):
            if x[off:off + step] != y[off:off + step]:
                for o in range(off, min(off + step, n), 8):
                    if x[o:o + 8] != y[o:o + 8]:
                        out.append(o // 8)
        return out

    def restore_all(self):
        """put the whole image back to the baseline (after a failed transition)."""
        cur = self.snapshot()
        for wa in self._diff_words(cur, self.baseline):
            v = int.from_bytes(self.baseline[wa * 8:wa * 8 + 8], 'little')
            if v != 0x8000000000000000 and v != 0xBB67AE8584CAA73B:
                try:
                    self.mem.set_word(wa, v)
                except Exception:  # noqa
                    pass
        self.current = self.baseline

    def set_region(self, block, words_bytes):
        lo, hi = self.region[block]
        if self.current[lo * 8:hi * 8] == words_bytes:
            return  # already there
        import struct
        self.mem.set_words(lo, list(struct.unpack(f'<{hi - lo}Q', words_bytes)))
        self.current = self.current[:lo * 8] + words_bytes + self.current[hi * 8:]

    def residue_of(self, snap, block):
        lo, hi = self.region[block]
        return snap[lo * 8:hi * 8]

    # ---- one transition
    def step(self, block, vals, io_in=None, raw=None, timeout=5.0):
        """vals: dict var->int (all declared variables). returns dict(exit, vals, frame_ok, diffs, cause, out, in_left)"""
        for name, _ in self.variables:
            self.poke(name, vals[name])
        if raw:
            cur = bytearray(self.current)
            for wa, val in raw.items():
                self.mem.set_word(wa, val)
                cur[wa * 8:wa * 8 + 8] = int(val).to_bytes(8, 'little')
            self.current = bytes(cur)
        self.io_out = []
        self.io_in = list(io_in or [])
        self.transitions += 1
        res = {'exit': None, 'vals': None, 'frame': [], 'cause': None, 'out': None}
        try:
            cause, ops, err, last, _ = self._run(self.labels[f'blk_{block}'], timeout)
        except Watchdog:
            res['cause'] = 'watchdog'
            return res
        except EOFError:
            res['cause'] = 'eof-exception'
            return res
        res['cause'] = cause
        res['ops'] = ops
        res['out'] = list(self.io_out)
        res['in_left'] = len(self.io_in)
        if cause != 0:  # TERM_LOOPING
            res['err'] = err
            return res
        ex = self.exit_of.get(last[-1] if last else None)
        res['exit'] = ex[1] if ex and ex[0] == block else ('other-block:' + str(ex) if ex else f'unknown-address:{last}')
        snap = self.snapshot()
        res['snap'] = snap
        got = {}
        for name, _ in self.variables:
            v, clean = self.peek(snap, name)
            got[name] = v
            if not clean:
                res['frame'].append(('non-data bits of variable', name))
        res['vals'] = got
        return res

    def frame_diffs(self, block, snap, expected_vals, extra_allowed=(), raw_expected=None):
        """words (outside the variables' data, the block's own region and words 0..3) that differ from the
        last accepted image. expected_vals are patched into the comparison image. On success the snapshot
        becomes the accepted image."""
        exp = bytearray(self.current)
        for name, _ in self.variables:
            base = self.var_addr[name]
            cb = self.var_bits[name]
            mask = (1 << cb) - 1
            v = expected_vals[name]
            for i in range(self.var_cells[name]):
                off = (base + 2 * i + 1) * 8
                exp[off:off + 8] = (((v >> (cb * i)) & mask) << self.shift).to_bytes(8, 'little')
        for wa, val in (raw_expected or {}).items():
            exp[wa * 8:wa * 8 + 8] = int(val).to_bytes(8, 'little')
        lo, hi = self.region[block]
        if snap[32:lo * 8] == exp[32:lo * 8] and snap[hi * 8:] == exp[hi * 8:]:
            self.current = snap
            return []
        diffs = []
        allowed = set(extra_allowed)
        for wa in self._diff_words(snap, bytes(exp)):
            if wa < 4 or lo <= wa < hi or wa in allowed:
                continue
            diffs.append((wa, int.from_bytes(exp[wa * 8:wa * 8 + 8], 'little'), int.from_bytes(snap[wa * 8:wa * 8 + 8], 'little'), self.where(wa)))
            if len(diffs) >= 8:
                break
        if not diffs:
            self.current = snap
        return diffs

    def where(self, wa):
        """nearest label at or before word address wa (for reports)."""
        addr = wa * self.w
        best = None
        for name, a in self.labels.items():
            if a <= addr and (best is None or a > best[1]):
                best = (name, a)
        return f'{best[0]}+{(addr - best[1]) // self.w}w' if best else str(wa)


def itertools_chain(*its):
    for it in its:
        yield from it


def residue_key(b: bytes) -> str:
    return hashlib.md5(b).hexdigest()[:12]
