"""Rebuild the native engine (_fjcore.c) from the repository's *working tree*.

Three artefacts, cached by content hash under /verif/.build/:
  plain - gcc -O2 (what users run)
  verif - wrapper TU (native/fjcore_verif.c includes _fjcore.c, adds a flat snapshot export)
  asan  - clang -O1 -g -fsanitize=address,undefined
A build is compiled in a private temp dir and published with an atomic rename.
"""
import hashlib
import os
import shutil
import subprocess
import sys
import sysconfig
import tempfile
from pathlib import Path

from . import REPO, VERIF

SRC = REPO / 'flipjump' / 'interpreter' / '_fjcore.c'
WRAP = VERIF / 'native' / 'fjcore_verif.c'
BUILD = VERIF / '.build'
SO_NAME = '_fjcore.abi3.so'

FLAGS = {
    'plain': ['gcc', '-O2', '-fPIC', '-shared', '-fwrapv'],
    'verif': ['gcc', '-O2', '-fPIC', '-shared', '-fwrapv'],
    'asan': ['clang', '-O1', '-g', '-fPIC', '-shared', '-fno-omit-frame-pointer',
             '-fsanitize=address,undefined', '-fno-sanitize-recover=undefined', '-shared-libasan'],
}


def _key(kind: str) -> str:
    h = hashlib.sha256()
    h.update(SRC.read_bytes())
    h.update(' '.join(FLAGS[kind]).encode())
    h.update(sys.version.encode())
    if kind == 'verif':
        h.update(WRAP.read_bytes())
    return f'{kind}-{h.hexdigest()[:20]}'


def asan_runtime() -> str:
    out = subprocess.run(['clang', '-print-file-name=libclang_rt.asan-x86_64.so'], capture_output=True, text=True)
    return out.stdout.strip()


def build(kind: str = 'plain') -> Path:
    """return the path of the built extension for the current working-tree source."""
    target_dir = BUILD / _key(kind)
    target = target_dir / SO_NAME
    if target.exists():
        return target
    BUILD.mkdir(exist_ok=True)
    inc = sysconfig.get_paths()['include']
    tmp = Path(tempfile.mkdtemp(prefix=f'tmp-{kind}-{os.getpid()}-', dir=BUILD))
    try:
        if kind == 'verif':
            src = tmp / 'wrap.c'
            src.write_text(f'#include "{SRC}"\n' + WRAP.read_text())
        else:
            src = SRC
        cmd = FLAGS[kind] + [f'-I{inc}', str(src), '-o', str(tmp / SO_NAME)]
        res = subprocess.run(cmd, capture_output=True, text=True)
        if res.returncode != 0:
            raise RuntimeError(f'building _fjcore ({kind}) failed:\n{res.stderr[-4000:]}')
        try:
            os.rename(tmp, target_dir)
        except OSError:
            pass  # another process published the same build first
    finally:
        shutil.rmtree(tmp, ignore_errors=True)
    if not target.exists():
        raise RuntimeError(f'build of {kind} did not produce {target}')
    return target


if __name__ == '__main__':
    for k in (sys.argv[1:] or ['plain', 'verif', 'asan']):
        print(k, build(k))
