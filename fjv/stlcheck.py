"""Shared driver of the stl block checks (C04 hex / C05 bit): explicit-state search over
(operand values x block residue) with the whole-image frame invariant."""
import itertools

from .stlharness import Harness, residue_key

SENTINEL = {'a': 0x5A5A5A5A, 'b': 0xA5A5A5A5, 'c': 0x3C3C3C3C, 'd': 0xC3C3C3C3, 'e': 0x96969696}


def operand_values(bits, count, budget):
    """all values if the product fits the budget, else the per-cell boundary alphabet product."""
    full = 1 << bits
    if full ** count <= budget:
        return list(range(full)), True
    edge = [0, 1, full - 1, full >> 1, (full >> 1) - 1, 7 % full, 10 % full, full - 2, 0x55555555555555555555 & (full - 1),
            0xAAAAAAAAAAAAAAAAAAAA & (full - 1), 9 % full, (full >> 1) + 1, 100 % full, 15 % full, 2, 8 % full]
    edge = list(dict.fromkeys(edge))
    k = len(edge)
    while k > 2 and k ** count > budget:
        k -= 1
    edge = edge[:k]
    return edge, False


MAX_RUNAWAYS = 12


def explore_block(h, spec, bits, budget, sieve, stats, case_base, closure=True, max_residues=24):
    """phase A: every operand tuple in sequence (the residue evolves along the chain);
    phase B: closure - every distinct residue seen x every operand tuple, until no new residue."""
    names = [nm for nm, _ in h.variables]
    mask = (1 << bits) - 1
    vals_list, exhaustive = operand_values(bits, len(spec.operands), budget)
    tuples = list(itertools.product(vals_list, repeat=len(spec.operands)))
    base_vals = {nm: SENTINEL[nm] & mask for nm in names}
    residues = {}
    base_res = h.residue_of(h.baseline, spec.name)
    residues[residue_key(base_res)] = base_res
    outcomes = set()
    recent = []
    runaways = [0]   # steps of this block that hit the watchdog: each one is a violation already; after MAX_RUNAWAYS the block is abandoned
    #                  (a change that makes a macro run away on every operand would otherwise cost budget x 5 CPU-seconds)

    def one(tup, phase, res_key):
        v = dict(base_vals)
        v.update(zip(spec.operands, tup))
        m = spec.model(v)
        if m is None:
            return None
        upd, exit_ = m
        exp = dict(v)
        exp.update({k: x & mask for k, x in upd.items()})
        r = h.step(spec.name, v)
        stats['transitions'] += 1
        problems = []
        if r['cause'] != 0:
            problems.append(('termination', 'self-loop halt at an exit', {'cause': r['cause'], 'err': r.get('err')}))
            if r['cause'] == 'watchdog':
                runaways[0] += 1
        else:
            if r['exit'] != exit_:
                problems.append(('branch', exit_, r['exit']))
            if r['vals'] != exp:
                bad = {k: (exp[k], r['vals'][k]) for k in exp if exp[k] != r['vals'][k]}
                problems.append(('values', {k: x[0] for k, x in bad.items()}, {k: x[1] for k, x in bad.items()}))
            if r['frame']:
                problems.append(('variable non-data bits', 'unchanged', r['frame']))
            fd = h.frame_diffs(spec.name, r['snap'], r['vals'])
            if fd:
                problems.append(('frame: words outside the block and its variables changed', 'unchanged',
                                 [{'word': d[0], 'baseline': d[1], 'now': d[2], 'at': d[3]} for d in fd]))
            outcomes.add((exit_, tuple(sorted(upd))))
        if problems:
            case = dict(case_base, block=spec.name, call=spec.call.format(x={e: 'X_' + e for e in spec.exits}, n=h.n), doc=spec.doc,
                        vals=v, operands=dict(zip(spec.operands, tup)), phase=phase, residue=res_key, previous=list(recent[-3:]))
            sieve.add({'kind': 'stl macro differs from its documented function', 'class': f'{h.ns}.{spec.name} {problems[0][0]}',
                       'case': case, 'expected': {p[0]: p[1] for p in problems}, 'observed': {p[0]: p[2] for p in problems},
                       'summary': f'w={h.w} n={h.n} {spec.call.split(" ")[0]} [{spec.name}] operands={dict(zip(spec.operands, tup))}: '
                                  f'{[p[0] for p in problems]}'})
            h.restore_all()
            return False
        return r

    # phase A
    for tup in tuples:
        if runaways[0] >= MAX_RUNAWAYS:
            stats['blocks_abandoned_after_runaways'] = stats.get('blocks_abandoned_after_runaways', 0) + 1
            break
        r = one(tup, 'chain', None)
        recent.append(list(tup))
        if r:
            res = h.residue_of(r['snap'], spec.name)
            k = residue_key(res)
            if k not in residues and len(residues) < max_residues:
                residues[k] = res
            elif k not in residues:
                stats['residue_cap_hit'] = stats.get('residue_cap_hit', 0) + 1
    # phase B
    if closure:
        done = set()
        work = list(residues)
        cap_tuples = tuples if len(tuples) <= 4096 else tuples[::max(1, len(tuples) // 1024)]
        while work:
            k = work.pop()
            if k in done:
                continue
            done.add(k)
            for tup in cap_tuples:
                if runaways[0] >= MAX_RUNAWAYS:
                    work = []
                    break
                h.set_region(spec.name, residues[k])
                r = one(tup, 'closure', k)
                if r:
                    res = h.residue_of(r['snap'], spec.name)
                    k2 = residue_key(res)
                    if k2 not in residues:
                        if len(residues) < max_residues:
                            residues[k2] = res
                            work.append(k2)
                        else:
                            stats['residue_cap_hit'] = stats.get('residue_cap_hit', 0) + 1
        h.set_region(spec.name, base_res)
    stats['states'] += len(residues) * len(tuples)
    stats['residues'] = stats.get('residues', 0) + len(residues)
    stats['blocks'] += 1
    if not exhaustive:
        stats['boundary_alphabet_blocks'] = stats.get('boundary_alphabet_blocks', 0) + 1
    return len(outcomes)


def mixed_sequences(h, specs, bits, depth, sieve, stats, case_base, values=(0, 1, 7, 8, 15)):
    """differential sanity check of the residue argument: all sequences of `depth` blocks from the
    initial image, each step compared with the model (state carried through the real image)."""
    names = [nm for nm, _ in h.variables]
    mask = (1 << bits) - 1
    vals0 = {nm: (values[i % len(values)] * 0x11111111) & mask for i, nm in enumerate(names)}
    for seq in itertools.product(specs, repeat=depth):
        h.restore_all()
        v = dict(vals0)
        path = []
        for spec in seq:
            m = spec.model(v)
            if m is None:
                break
            upd, exit_ = m
            exp = dict(v)
            exp.update({k: x & mask for k, x in upd.items()})
            r = h.step(spec.name, v)
            stats['transitions'] += 1
            path.append(spec.name)
            if r['cause'] != 0 or r['exit'] != exit_ or r['vals'] != exp or h.frame_diffs(spec.name, r['snap'], r['vals']):
                sieve.add({'kind': 'stl macro sequence differs from the composition of documented functions', 'class': f'sequence {h.ns}',
                           'case': dict(case_base, sequence=list(path), start=vals0), 'expected': {'exit': exit_, 'vals': exp},
                           'observed': {'cause': r['cause'], 'exit': r['exit'], 'vals': r['vals']},
                           'summary': f'w={h.w} n={h.n} sequence {path}: differs from the model'})
                h.restore_all()
                break
            v = exp
    h.restore_all()
