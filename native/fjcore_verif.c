/* appended after `#include "<repo>/flipjump/interpreter/_fjcore.c"` (same translation unit):
   one exported helper giving a fast snapshot of the flat array (the whole memory image in
   flat mode). lives in /verif; the repository is not modified. */
PyObject* fjverif_flat_snapshot(PyObject* op)
{
    MemoryObject* self = (MemoryObject*)op;
    if (!self->flat) {
        Py_RETURN_NONE;
    }
    return PyBytes_FromStringAndSize((const char*)self->flat, (Py_ssize_t)(self->flat_count * sizeof(uint64_t)));
}
