"""C11 - the native engine is memory-safe for every image, input and knob.

K1 on an AddressSanitizer + UBSan build of the WORKING-TREE _fjcore.c (clang, loaded into the stock
interpreter with LD_PRELOAD of the ASan runtime), in batch worker subprocesses:
 * every _fjcore.Memory API call sequence of depth <= 3 (thorough 4) over an adversarial alphabet
   (constructor knobs; add_segment at page / window / 2^40 / 2^58 / 2^63 / 2^64 edges with zero, huge,
   exactly-to-2^64 and overflowing lengths; set_words inside / straddling / wrapping / bad items;
   get_word / set_word at the same addresses; run with ring lengths {0,1,3,-1,2^62} and start_ip
   {0,1,w,2^64-1} and device callbacks that poke the memory at any 64-bit address; run twice;
   add_segment after a run; __init__ on a live object; thousands of segments in descending order);
 * slices of the C01 / C07 / C19 engine drivers (flat, hybrid, paged, ring, measurement) and .fjm
   files with adversarial segment tables through fjm_run.run.
Oracle: no sanitizer report, the worker exits normally, every abnormal situation is a Python
exception or a termination cause. A progress file names the sequence in flight.
"""
import itertools
import json
import os
import subprocess
import sys
import time

from fjv.runner import Run, parse_args, load_replay, main_guard

PROP = 'C11'
U64 = 1 << 64


# ------------------------------------------------------------------ the API alphabet
def alphabet(w, tier):
    """list of (name, fn(mem, ctx)) ; ctx: dict(w, make(), log)"""
    dw = 2 * w
    A = []

    def add(name, fn):
        A.append((name, fn))

    starts = [0, 2, 4, (1 << 14) - 2, 1 << 14, (1 << 16) - 2, (1 << 23) - 2, 1 << 40, (1 << 58) - 2, 1 << 63, U64 - 4, U64 - 1]
    lengths = [0, 2, 4, (1 << 14) + 2, 1 << 40, 1 << 63]
    seg_pairs = [(s, l) for s in starts for l in lengths if tier == 'thorough' or (s in (0, 2, (1 << 14) - 2, (1 << 16) - 2, 1 << 40, U64 - 4) or l in (2, 1 << 63))]
    seg_pairs += [(U64 - 4, 4), (U64 - 4, 5), (2, U64 - 2), (1, U64 - 1), (1 << 63, 1 << 63), ((1 << 63) + 2, 1 << 63)]
    for s, l in dict.fromkeys(seg_pairs):
        add(f'add_segment({s},{l})', lambda m, c, s=s, l=l: m.add_segment(s, l))
    # a runnable program: halt / output loop with horizon / flip far memory
    add('load_halt', lambda m, c: (m.add_segment(0, 4), m.set_words(0, [0, dw, 0, dw])))
    add('load_out_loop', lambda m, c: (m.add_segment(0, 8), m.set_words(0, [0, 4 * w, 0, 0, dw, 6 * w, dw + 1, 4 * w])))
    add('load_far_flip', lambda m, c: (m.add_segment(0, 4), m.add_segment(1 << 40, 4), m.set_words(0, [((1 << 40) * w + 3) & ((1 << w) - 1) if w == 64 else 5, dw, 0, dw])))
    add('load_in_op', lambda m, c: (m.add_segment(0, 8), m.set_words(0, [0, 3 * w + w.bit_length(), 0, 0, 0, 0, 0, 0])))
    add('load_jump_top', lambda m, c: (m.add_segment(0, 2), m.set_words(0, [0, ((1 << w) - 1)])))
    add('load_unaligned', lambda m, c: (m.add_segment(0, 6), m.set_words(0, [0, dw + 1, 0, 0, 0, 0])))
    word_addrs = [0, 1, 3, 4, (1 << 14) - 1, 1 << 14, (1 << 23) - 1, 1 << 40, (1 << 58) - 1, 1 << 63, U64 - 2, U64 - 1]
    for a in word_addrs:
        add(f'get_word({a})', lambda m, c, a=a: m.get_word(a))
        add(f'set_word({a})', lambda m, c, a=a: m.set_word(a, 0xBB67AE8584CAA73B))
    add('set_word(0,2^64)', lambda m, c: m.set_word(0, U64))
    add('set_word(-1)', lambda m, c: m.set_word(-1, 1))
    for a in (0, 2, 3, (1 << 14) - 1, (1 << 23) - 1, 1 << 40, U64 - 2, U64 - 1):
        add(f'set_words({a},3)', lambda m, c, a=a: m.set_words(a, [1, 2, 3]))
    add('set_words(0,[])', lambda m, c: m.set_words(0, []))
    add('set_words(0,bad-item)', lambda m, c: m.set_words(0, [1, 'x', 3]))
    add('set_words(0,negative)', lambda m, c: m.set_words(0, [1, -1]))
    add('set_words(0,2^64)', lambda m, c: m.set_words(0, [U64]))
    add('set_words(0,tuple)', lambda m, c: m.set_words(0, (5, 6)))
    add('set_words(0,20000)', lambda m, c: m.set_words(0, list(range(20000))))
    add('set_words(0,generator)', lambda m, c: m.set_words(0, (x for x in range(3))))
    for ring in (0, 1, 3, -1, 1 << 62):
        for ip in (0, 1, w, U64 - 1):
            if tier != 'thorough' and ring in (-1, 1 << 62) and ip != 0:
                continue
            add(f'run(ring={ring},ip={ip})', lambda m, c, ring=ring, ip=ip: c['run'](m, ring, ip, None))
    for poke in ('get0', 'set0', 'set_far', 'set_top', 'get_top', 'add_segment', 'reinit', 'reinit_rejected', 'set_words_wrap', 'run_nested'):
        add(f'run(device:{poke})', lambda m, c, poke=poke: c['run'](m, 2, 0, poke))
    class Truthy:
        def __init__(self, v):
            self.v = v

        def __bool__(self):
            return self.v
    for label, make in (('fresh int', lambda k: 1000 + k), ('fresh float', lambda k: 0.5 * k), ('object with __bool__', lambda k: Truthy(k % 2 == 0)),
                        ('fresh list', lambda k: [k] * (k % 2)), ('fresh str', lambda k: 'x' * (k % 3))):
        for ring in (0, 3):
            def run_fresh(m, c, make=make, ring=ring):
                box = [0]

                def rd():
                    box[0] += 1
                    if box[0] > 12:
                        raise EOFError()
                    return make(box[0])
                m.add_segment(0, 8)
                m.set_words(0, [0, 3 * c['w'] + c['w'].bit_length(), 0, 0, 0, 0, 0, 0])
                return m.run(rd, lambda b: None, EOFError, last_ops_length=ring)
            add(f'run(read returns {label},ring={ring})', run_fresh)
    class Reentrant:
        """a sequence whose item access runs / re-initialises / extends the memory it is being loaded into (finding F23)"""

        def __init__(self, m, what, n=40):
            self.m, self.what, self.n = m, what, n

        def __len__(self):
            return self.n

        def __getitem__(self, i):
            if i >= self.n:
                raise IndexError(i)
            if i == 1:
                try:
                    if self.what == 'run':
                        import signal
                        signal.setitimer(signal.ITIMER_REAL, 0.4)   # the half-loaded image may well loop forever
                        try:
                            self.m.run(lambda: False, lambda b: None, EOFError)
                        finally:
                            signal.setitimer(signal.ITIMER_REAL, 0)
                    elif self.what == 'reinit':
                        self.m.__init__(64)
                    elif self.what == 'add_segment':
                        self.m.add_segment(1 << 40, 4)   # (not 2^30: a flat window of 8 GiB is allocatable, and under ASan it gets the worker killed)
                except Exception:  # noqa  (Horizon too: the nested run was cut off, the load goes on)
                    pass
            return 7
    for what in ('run', 'reinit', 'add_segment'):
        for a in (0, (1 << 14) - 2, 1 << 20):
            def reentrant(m, c, what=what, a=a):
                m.add_segment(1 << 20, 64)
                return m.set_words(a, Reentrant(m, what))
            add(f'set_words({a},sequence that does {what})', reentrant)
    add('__init__ again', lambda m, c: m.__init__(c['w']))
    add('__init__ other width', lambda m, c: m.__init__(8 if c['w'] != 8 else 64, flat_max_words=3))
    add('__init__ rejected (bad width)', lambda m, c: m.__init__(7))
    add('__init__ rejected (no arguments)', lambda m, c: m.__init__())
    add('__init__ rejected (bad keyword)', lambda m, c: m.__init__(c['w'], no_such_option=1))
    add('5000 segments descending', lambda m, c: [m.add_segment(2 * (6000 - i), 2) for i in range(5000)])
    add('attrs', lambda m, c: (m.storage_mode, m.last_run_op_count, m.speculation_stats, getattr(m, 'allocated_bytes', None)))
    return A


class Horizon(Exception):
    pass


def make_ctx(w):
    import signal

    def alarm(s, f):
        raise Horizon('alarm')
    signal.signal(signal.SIGALRM, alarm)

    def run(m, ring, ip, poke):
        calls = [0]

        def dev(kind):
            calls[0] += 1
            if calls[0] > 6:
                raise Horizon()
            if poke and calls[0] == 1:
                try:
                    if poke == 'get0':
                        m.get_word(0)
                    elif poke == 'set0':
                        m.set_word(1, 4 * w)
                    elif poke == 'set_far':
                        m.set_word(1 << 40, 7)
                    elif poke == 'set_top':
                        m.set_word(U64 - 1, 7)
                    elif poke == 'get_top':
                        m.get_word(U64 - 1)
                    elif poke == 'add_segment':
                        m.add_segment(1 << 20, 4)
                    elif poke == 'reinit':
                        m.__init__(w)
                    elif poke == 'reinit_rejected':
                        m.__init__(7)
                    elif poke == 'set_words_wrap':
                        m.set_words(U64 - 2, [1, 2, 3])
                    elif poke == 'run_nested':
                        m.run(lambda: False, lambda b: None, EOFError)
                except Horizon:
                    raise
                except Exception:  # noqa
                    pass
            return False

        signal.setitimer(signal.ITIMER_REAL, 0.4)
        try:
            return m.run(lambda: dev('r'), lambda b: dev('w'), EOFError, last_ops_length=ring, start_ip=ip)
        finally:
            signal.setitimer(signal.ITIMER_REAL, 0)
    return {'w': w, 'run': run}


CONSTRUCTORS_ALL = [(w, gs, fm) for w in (8, 16, 32, 64) for gs in (1, 0) for fm in (0, 1, 3, 1 << 63)]
THOROUGH_DEEP = ((64, 1, 0), (32, 1, 3), (8, 1, 0), (16, 1, 3), (64, 0, 0), (64, 0, 3))
CONSTRUCTORS_QUICK = [(64, 1, 0), (32, 1, 3), (8, 1, 0), (16, 0, 3), (64, 0, 0), (64, 1, 1 << 63), (32, 1, 1)]


def sequences(tier, w, deep=True):
    A = alphabet(w, tier)
    n = len(A)
    loads = [i for i, (nm, _) in enumerate(A) if nm.startswith('load_') or nm.startswith('add_segment(0,')]
    runs = [i for i, (nm, _) in enumerate(A) if nm.startswith('run(')]
    for i in range(n):
        yield (i,)
    for p in itertools.product(range(n), repeat=2):
        yield p
    # depth 3: (load | add_segment at 0) x anything x anything is too big; take load x run x anything and load x anything x run
    if not deep:
        return
    rejected_inits = [i for i, (nm, _) in enumerate(A) if nm.startswith('__init__ rejected')]
    for l in loads:
        for r in runs:
            for x in range(n):
                yield (l, r, x)
        # a live object whose re-initialisation is rejected, then anything (also after a run built the flat array)
        for ri in rejected_inits:
            for x in range(n):
                yield (l, ri, x)
            for r in runs[::5]:
                for x in range(0, n, 3):
                    yield (l, r, ri, x)
                if tier == 'thorough':
                    yield (l, x, r)
    # a segment declared AFTER a run has fixed the storage layout, then the word accessors / another run on it
    names = [nm for nm, _ in A]
    late_segs = [i for i, nm in enumerate(names) if nm.startswith('add_segment(') and any(nm.startswith(f'add_segment({s},') for s in
                 (4, (1 << 14) - 2, 1 << 14, (1 << 16) - 2, 1 << 40, 1 << 63)) and nm.split(',')[1].rstrip(')') in ('2', '4', str((1 << 14) + 2))]
    accs = [i for i, nm in enumerate(names) if nm.startswith('get_word(') or nm.startswith('set_word(') or nm.startswith('set_words(')]
    first_loads = [i for i in loads if names[i] in ('load_halt', 'load_out_loop', 'load_far_flip')]
    first_runs = [i for i in runs if names[i] in ('run(ring=0,ip=0)', 'run(ring=3,ip=0)')]
    for l in first_loads:
        for r in first_runs:
            for sg in late_segs:
                for a in accs:
                    yield (l, r, sg, a)
                for r2 in first_runs:
                    yield (l, r, sg, r2)
    # a segment that starts inside the flat window and ends far above it, declared BEFORE the first run (the flat array is built with it)
    straddle = [i for i, nm in enumerate(names) if nm.startswith('add_segment(') and any(nm.startswith(f'add_segment({s},') for s in
                (4, (1 << 14) - 2, 1 << 14, (1 << 16) - 2, (1 << 23) - 2)) and nm.split(',')[1].rstrip(')') in (str((1 << 14) + 2), str(1 << 40), str(1 << 63))]
    for l in first_loads:
        for sg in straddle:
            for r in first_runs:
                yield (l, sg, r)
                for a in accs[::3]:
                    yield (l, sg, r, a)
    if tier == 'thorough':
        for l in loads:
            for r in runs[::3]:
                for x in range(0, n, 2):
                    for y in runs[::4]:
                        yield (l, r, x, y)


# ------------------------------------------------------------------ worker (runs under ASan)
def worker(spec_path):
    spec = json.load(open(spec_path))
    from fjv.bind import bind
    core = bind('asan')
    prog = open(spec['progress'], 'w')
    n = 0
    if spec['kind'] == 'api':
        for (w, gs, fm) in [tuple(c) for c in spec['constructors']]:
            A = alphabet(w, spec['tier'])
            ctx = make_ctx(w)
            # depth >= 3: quick - two constructors; thorough - six (all 32 constructors at depth 3-4 are 9.6 million sanitizer sequences: it did
            # not finish in 90 minutes, ten constructors not in 60 on a loaded machine)
            deep = ((spec['tier'] == 'thorough' and (w, gs, fm) in THOROUGH_DEEP) or (w, gs, fm) in ((64, 1, 0), (32, 1, 3))) and not spec.get('shallow')
            for si, seq in enumerate(sequences(spec['tier'], w, deep)):
                if si % spec['nparts'] != spec['part']:
                    continue
                prog.seek(0)
                prog.write(json.dumps({'constructor': [w, gs, fm], 'sequence': [A[i][0] for i in seq]}) + ' ' * 40)
                prog.flush()
                try:
                    m = core.Memory(w, garbage_stop=bool(gs), flat_max_words=fm)
                except Exception:  # noqa
                    continue
                for i in seq:
                    try:
                        A[i][1](m, ctx)
                    except Exception:  # noqa  (python exceptions are the documented way to fail)
                        pass
                    except Horizon:
                        pass
                try:
                    m.get_word(0), m.storage_mode
                except Exception:  # noqa
                    pass
                del m
                n += 1
    elif spec['kind'] == 'engines':
        import checks.C01 as C01
        import checks.C07 as C07
        import checks.C19 as C19
        from fjv.runner import install_watchdog
        install_watchdog()
        for t in spec['tasks']:
            prog.seek(0)
            prog.write(json.dumps({'engine_task': t}) + ' ' * 40)
            prog.flush()
            mod = {'C01': C01, 'C07': C07, 'C19': C19}[t[0]]
            res = mod.work(tuple(tuple(x) if isinstance(x, list) else x for x in t[1]))
            st = res[0] if t[0] != 'C19' else res[1]
            n += st.get('engine_runs', 0) + st.get('runs', 0)
    elif spec['kind'] == 'files':
        n += adversarial_files()
    ownership = []
    if spec['kind'] == 'ownership':
        n, ownership = ownership_probe(core)
    print(json.dumps({'done': n, 'ownership': ownership}))
    prog.close()


def ownership_probe(core):
    """reference counts of every object handed to the native API are the same before the call and after the Memory object is gone,
    for accepted and for rejected calls (an unowned DECREF is a delayed use-after-free, an extra INCREF a leak)."""
    import gc
    problems, n = [], 0
    big = int('18446744073709551616')            # 2^64, a fresh int object
    neg = int('-12345678901234567890')
    word = int('13503953896175478587')           # a fresh 64-bit int
    addr = int('1099511627776')
    text = ''.join(['x', 'y'])

    def calls(w):
        dw = 2 * w
        prog = [0, dw, 0, dw, 0, 0, 0, 0]
        yield 'set_words(list)', lambda m, o: m.set_words(0, o['v']), {'v': [1, 2, 3, word & ((1 << w) - 1)]}
        yield 'set_words(tuple)', lambda m, o: m.set_words(0, o['v']), {'v': (5, 6)}
        yield 'set_words(bad item str)', lambda m, o: m.set_words(0, o['v']), {'v': [1, text, 3], 'item': text}
        yield 'set_words(bad item 2^64)', lambda m, o: m.set_words(0, o['v']), {'v': [1, big], 'item': big}
        yield 'set_words(bad item negative)', lambda m, o: m.set_words(0, o['v']), {'v': [neg, 1], 'item': neg}
        yield 'set_words(too long)', lambda m, o: m.set_words(2, o['v']), {'v': list(range(300, 320))}
        yield 'set_words(outside)', lambda m, o: m.set_words(o['a'], o['v']), {'v': [7, 8], 'a': addr}
        yield 'set_words(wrap)', lambda m, o: m.set_words(U64 - 1, o['v']), {'v': [7, 8, 9]}
        yield 'set_words(generator)', lambda m, o: m.set_words(0, o['v']), {'v': (x for x in [1, 2])}
        yield 'set_words(empty)', lambda m, o: m.set_words(0, o['v']), {'v': []}
        yield 'set_word(value)', lambda m, o: m.set_word(1, o['x']), {'x': word & ((1 << w) - 1) | (1 << (w - 1))}
        yield 'set_word(2^64)', lambda m, o: m.set_word(1, o['x']), {'x': big}
        yield 'set_word(str)', lambda m, o: m.set_word(1, o['x']), {'x': text}
        yield 'get_word(far)', lambda m, o: m.get_word(o['a']), {'a': addr}
        yield 'get_word(str)', lambda m, o: m.get_word(o['x']), {'x': text}
        yield 'add_segment(str)', lambda m, o: m.add_segment(o['x'], 2), {'x': text}
        yield 'add_segment(2^64)', lambda m, o: m.add_segment(o['x'], 2), {'x': big}
        for ring in (0, 3):
            yield f'run halt ring={ring}', lambda m, o, ring=ring: (m.set_words(0, prog), m.run(o['r'], o['w'], o['e'], last_ops_length=ring)), \
                {'r': (lambda: False), 'w': (lambda b: None), 'e': type('E1', (Exception,), {})}
            out_loop = [0, 4 * w, 0, 0, dw, 6 * w, dw + 1, 4 * w]

            def raising(b, box=[0]):
                box[0] += 1
                if box[0] > 3:
                    raise ValueError('device')
            yield f'run device raises ring={ring}', lambda m, o, ring=ring: (m.set_words(0, out_loop), m.run(o['r'], o['w'], o['e'], last_ops_length=ring)), \
                {'r': (lambda: False), 'w': raising, 'e': type('E2', (Exception,), {})}
            E3 = type('E3', (Exception,), {})

            def eof(E3=E3):
                raise E3()
            in_op = [0, 3 * w + w.bit_length(), 0, 0, 0, 0, 0, 0]
            yield f'run EOF ring={ring}', lambda m, o, ring=ring: (m.set_words(0, in_op), m.run(o['r'], o['w'], o['e'], last_ops_length=ring)), \
                {'r': eof, 'w': (lambda b: None), 'e': E3}
        yield 'run(bad ring)', lambda m, o: m.run(o['r'], o['w'], o['e'], last_ops_length=o['x']), {'r': (lambda: False), 'w': (lambda b: None), 'e': type('E4', (Exception,), {}), 'x': text}
        yield 'run(not callable)', lambda m, o: (m.set_words(0, [dw, 4 * w, 0, 0, 0, 4 * w]), m.run(o['r'], o['x'], o['e'])), {'r': (lambda: False), 'x': text, 'e': type('E5', (Exception,), {})}
        yield '__init__(str width)', lambda m, o: m.__init__(o['x']), {'x': text}
        yield '__init__(bad kw value)', lambda m, o: m.__init__(w, flat_max_words=o['x']), {'x': text}

    for (w, gs, fm) in CONSTRUCTORS_QUICK:
        for name, fn, objs in calls(w):
            m = core.Memory(w, garbage_stop=bool(gs), flat_max_words=fm)
            m.add_segment(0, 8)
            gc.collect()
            before = {k: sys.getrefcount(v) for k, v in objs.items()}
            outcome = 'ok'
            try:
                fn(m, objs)
            except Horizon:
                outcome = 'horizon'
            except BaseException as e:  # noqa
                outcome = type(e).__name__
                del e
            del m
            gc.collect()
            after = {k: sys.getrefcount(v) for k, v in objs.items()}
            n += 1
            if after != before:
                problems.append({'constructor': [w, gs, fm], 'call': name, 'outcome': outcome,
                                 'refcount_before': before, 'refcount_after': after})
    return n, problems


def adversarial_files():
    """fjm files with adversarial segment tables through the public fjm_run.run"""
    import struct
    from fjv.enginecheck import scratch
    from flipjump.interpreter import fjm_run
    from flipjump.interpreter.io_devices.FixedIO import FixedIO
    n = 0
    wd = scratch()
    for w in (8, 16, 32, 64):
        fmt = {8: 'B', 16: 'H', 32: 'L', 64: 'Q'}[w]
        prog = [0, 2 * w, 0, 2 * w]
        tables = [
            [(0, 4, 0, 4)],
            [(0, 4, 0, 4), (1 << 40, 1 << 40, 0, 0)],
            [(0, 4, 0, 4), (1 << 63, 1 << 62, 0, 0)],
            [(0, 4, 0, 4), (U64 - 4, 4, 0, 0)],
            [(0, 4, 0, 4), (U64 - 2, 2, 0, 2)],
            [(0, 4, 0, 4)] + [(2 * (3000 - i), 2, 0, 0) for i in range(2500)],
            [(0, 1 << 63, 0, 4)],
            [(0, 4, 0, 4), (6, 0, 0, 0)],
            [(0, (1 << 23) + 2, 0, 4)],
            [(0, 4, 0, 4), ((1 << 23) - 2, 4, 0, 4)],
        ]
        for ti, table in enumerate(tables):
            b = struct.pack('<HHQQ', 0x4A46, w, 1, len(table)) + struct.pack('<QL', 0, 0)
            for s in table:
                b += struct.pack('<QQQQ', *s)
            b += struct.pack(f'<4{fmt}', *prog)
            p = wd / f'adv-{w}-{ti}.fjm'
            p.write_bytes(b)
            for kw in ({}, {'last_ops_debugging_list_length': 5}, {'flat_max_words': 3}):
                for env in ({}, {'FLIPJUMP_NO_FLAT': '1'}, {'FLIPJUMP_MEASURE_SPECULATION': '1'}):
                    os.environ.update(env)
                    try:
                        fjm_run.run(p, io_device=FixedIO(b'ab'), **kw)
                    except Exception:  # noqa
                        pass
                    finally:
                        for k in env:
                            os.environ.pop(k, None)
                    n += 1
    return n


# ------------------------------------------------------------------ parent
def spawn(spec, wd, idx):
    from fjv.build import asan_runtime
    from fjv import VERIF
    sp = wd / f'spec-{idx}.json'
    spec = dict(spec, progress=str(wd / f'progress-{idx}.json'))
    sp.write_text(json.dumps(spec))
    env = dict(os.environ, LD_PRELOAD=asan_runtime(), PYTHONMALLOC='malloc',
               **({'FLIPJUMP_FLAT_MAX_WORDS': str(1 << 16)} if spec.get('small_window') else {}),
               ASAN_OPTIONS='detect_leaks=0:allocator_may_return_null=1:halt_on_error=1:abort_on_error=0:handle_segv=1:detect_stack_use_after_return=0',
               UBSAN_OPTIONS='print_stacktrace=1:halt_on_error=1')
    errf = open(wd / f'stderr-{idx}.txt', 'wb')
    p = subprocess.Popen([sys.executable, '-m', 'checks.C11', '--worker', str(sp)], cwd=str(VERIF), env=env, stdout=subprocess.PIPE, stderr=errf)
    return p, spec, errf


def engine_tasks(tier):
    t = []
    for w in (8, 16, 32, 64):
        for pre in range(3):
            t.append(['C01', ['quick', w, 'one2', [pre]]])
    for w in (32, 64):
        t.append(['C01', ['quick', w, 'two-top', [0, 0]]])
        t.append(['C01', ['quick', w, 'in6-0-0', [0]]])
    import checks.C07 as C07
    for w in (32, 64):
        fam = list(C07.families(w, 'quick'))
        for name in fam[:3] + fam[-2:]:
            t.append(['C07', ['quick', w, name, [0, 1]]])
            if tier == 'thorough':
                t.append(['C07', ['quick', w, name, [1, 0]]])
    for w in (32, 64):
        t.append(['C19', ['A', 'quick', w, 12, 0, 64]])
        t.append(['C19', ['A', 'quick', w, 16 << 14, 1, 64]])
    return t


def main():
    if len(sys.argv) >= 3 and sys.argv[1] == '--worker':
        worker(sys.argv[2])
        return 0
    args = parse_args(PROP)
    from fjv.build import build
    build('asan')
    if args.replay:
        return replay(args)
    run = Run(PROP, 'exploration', args)
    from fjv.enginecheck import scratch
    wd = scratch()
    specs = []
    nparts = 14
    for part in range(nparts):
        specs.append({'kind': 'api', 'tier': args.tier, 'constructors': CONSTRUCTORS_ALL if args.tier == 'thorough' else CONSTRUCTORS_QUICK, 'part': part, 'nparts': nparts,
                      'small_window': args.tier != 'thorough'})
    if args.tier != 'thorough':
        # the real default 2^23-word window (a 64 MB fill per run under ASan): depth <= 2 on one constructor
        specs.append({'kind': 'api', 'tier': args.tier, 'constructors': [(64, 1, 0)], 'part': 0, 'nparts': 1, 'small_window': False, 'shallow': True})
    et = engine_tasks(args.tier)
    for k in range(5):
        specs.append({'kind': 'engines', 'tier': args.tier, 'tasks': et[k::5]})
    specs.append({'kind': 'files', 'tier': args.tier})
    specs.append({'kind': 'ownership', 'tier': args.tier})
    running, queue = [], list(enumerate(specs))
    done_total, sanitizer_reports, ownership_problems = 0, 0, 0
    while queue or running:
        while queue and len(running) < max(1, args.jobs):
            idx, spec = queue.pop(0)
            running.append((idx,) + spawn(spec, wd, idx) + (time.time(),))
        time.sleep(0.2)
        for item in list(running):
            idx, p, spec, errf, t0 = item
            if p.poll() is None:
                continue
            running.remove(item)
            if os.environ.get('FJV_TIMES'):
                print(f'[worker {idx} {spec["kind"]} part={spec.get("part")} {time.time() - t0:.1f}s]', file=sys.stderr)
            errf.close()
            out = p.stdout.read().decode('latin1')
            err = (wd / f'stderr-{idx}.txt').read_text(errors='replace')
            report = 'ERROR: AddressSanitizer' in err or 'runtime error:' in err or 'SUMMARY: ' in err
            ok_line = [l for l in out.splitlines() if l.startswith('{"done"')]
            if ok_line:
                done_total += json.loads(ok_line[-1])['done']
                for prob in json.loads(ok_line[-1]).get('ownership', []):
                    ownership_problems += 1
                    run.report({'kind': 'reference count of an argument object changed across a native API call', 'class': 'ownership ' + prob['call'],
                                'case': {'ownership': prob}, 'expected': prob['refcount_before'], 'observed': prob['refcount_after'],
                                'summary': f"{prob['call']} on Memory{tuple(prob['constructor'])} ({prob['outcome']}): refcounts {prob['refcount_before']} -> {prob['refcount_after']}"})
            if p.returncode != 0 or report or not ok_line:
                try:
                    progress = json.loads(open(spec['progress']).read().strip() or '{}')
                except Exception:  # noqa
                    progress = {'unknown': True}
                sanitizer_reports += 1
                first = ''
                for line in err.splitlines():
                    if 'ERROR: AddressSanitizer' in line or 'runtime error:' in line or 'SUMMARY' in line:
                        first += line.strip()[:300] + ' | '
                run.report({'kind': 'native engine memory-safety violation / host crash', 'class': first[:80] or f'exit {p.returncode}',
                            'case': {'worker': {k: v for k, v in spec.items() if k not in ('constructors', 'tasks')}, 'in_flight': progress},
                            'expected': 'no sanitizer report, normal exit', 'observed': {'returncode': p.returncode, 'report': first[:1500], 'stderr_tail': err[-1500:]},
                            'summary': f'in flight: {json.dumps(progress)[:300]} -> rc={p.returncode} {first[:300]}'})
    nseq = {w: sum(1 for _ in sequences(args.tier, w, w == 64)) for w in (8, 64)}
    cov = {
        'evaluations': done_total,
        'distinct_nontrivial': done_total,
        'rule': 'evaluations = API call sequences executed on the sanitizer build (each (constructor, sequence) pair once) + engine runs of the C01/C07/C19 '
                'driver slices + adversarial-file runs; all distinct by construction; a case is non-trivial because it executes native code',
        'samples': [{'constructor': [64, 1, 3], 'sequence': ['load_halt', 'run(ring=3,ip=0)', f'set_words({U64 - 2},3)']},
                    {'engine_tasks': engine_tasks(args.tier)[:3]}],
        'api_sequences_per_constructor': nseq,
        'constructors': len(CONSTRUCTORS_ALL if args.tier == 'thorough' else CONSTRUCTORS_QUICK),
        'alphabet_size': len(alphabet(64, args.tier)),
        'workers_with_reports': sanitizer_reports, 'ownership_problems': ownership_problems,
        'bounds': {'depth': 3 if args.tier != 'thorough' else 4, 'sanitizers': 'clang -fsanitize=address,undefined'},
        'exhaustive': True,
    }
    return run.finish(cov, assumptions=[
        'as strong as AddressSanitizer/UBSan on the explored sequences; reference counts are compared only for the argument objects of the ownership probe (about 30 call shapes x 7 constructors)',
        'python-level exceptions (ValueError, MemoryError, OverflowError, TypeError) are the documented way to refuse'])


def replay(args):
    rec = load_replay(args.replay)
    fl = rec['case']['in_flight']
    from fjv.enginecheck import scratch
    wd = scratch()
    if 'sequence' not in fl:
        print('in flight was an engine/file task:', fl, '- re-run the check')
        return 1
    w, gs, fm = fl['constructor']
    names = [a[0] for a in alphabet(w, 'thorough')]
    # a one-sequence worker
    spec = {'kind': 'api1', 'tier': 'thorough', 'constructor': fl['constructor'], 'sequence': fl['sequence']}
    code = f'''
import sys; sys.path.insert(0, {str(os.getcwd())!r})
from fjv.bind import bind; core = bind('asan')
import checks.C11 as C
A = dict(C.alphabet({w}, 'thorough')); ctx = C.make_ctx({w})
m = core.Memory({w}, garbage_stop=bool({gs}), flat_max_words={fm})
for name in {fl['sequence']!r}:
    try: A[name](m, ctx)
    except Exception as e: print(name, '->', type(e).__name__, e)
    except C.Horizon: print(name, '-> horizon')
print('finished normally')
'''
    from fjv.build import asan_runtime
    env = dict(os.environ, LD_PRELOAD=asan_runtime(), PYTHONMALLOC='malloc', ASAN_OPTIONS='detect_leaks=0:allocator_may_return_null=1:halt_on_error=1')
    p = subprocess.run([sys.executable, '-c', code], env=env, capture_output=True, text=True)
    print(p.stdout[-2000:], p.stderr[-3000:])
    if p.returncode != 0 or 'ERROR: AddressSanitizer' in p.stderr or 'runtime error:' in p.stderr:
        print(f'VIOLATION property={PROP} replay={args.replay}')
        return 1
    print('replay: ok')
    return 0


if __name__ == '__main__':
    main_guard(main)
