"""C07 - results and final memory do not depend on engine or storage layout.

Configuration product (K4) over program families (K1): for every program of the sparse two-segment
family (near code [0,6) + a far segment at FAR, FAR chosen at page edges, direct-mapped page-cache
aliases, the flat-window edge, 2^40.., the top of the space), the w=64 fill-constant family and a
slice of C01's single-segment images  x  every storage knob (flat / hybrid windows around every
boundary / forced paged / env window / measurement loop / ring lengths) x engines:
cause, op count, fault address, IO calls, last-ops list and the FINAL CONTENT of every touched
in-segment word must equal the reference machine R1 (hence be equal across engines and modes).
"""
import itertools
import sys

from fjv.bind import bind
from fjv.runner import Run, Sieve, parse_args, pmap, load_replay, main_guard

PROP = 'C07'
H = 64
MAGIC = 0xBB67AE8584CAA73B


def far_values(w, tier):
    ww = w.bit_length() - 1
    # the far segment ends 2 words below the last bit-addressable word, so that no op straddles
    # bit 2^w (that corner is finding F1 and is explored by C01's two-top layout)
    top = (1 << (w - ww)) - 6
    P = 1 << 14
    if tier == 'thorough':
        vals = [6, P - 2, P, 16 * P - 2, 16 * P, 32 * P, 17 * P - 2, 2 * P - 2, 33 * P - 2, (1 << 23) - 2, (1 << 23), 1 << 26]
        if w == 64:
            vals += [1 << 40, (1 << 57) - 2]
        vals += [top]
    elif w == 64:
        vals = [P, 32 * P, 1 << 40, (1 << 57) - 2, top]
    else:
        vals = [6, P - 2, 16 * P - 2, 16 * P, 17 * P - 2]
    if w < 64:
        vals.append((1 << (w - ww)) - 4)  # the far segment ends exactly at the top of the address space (below w=64 nothing wraps: F1 is w=64 only)
    return [v for v in dict.fromkeys(vals) if v + 4 <= (1 << (w - ww))]


def sparse_program_space(w, FAR, tier):
    """positions (word addresses) and per-position alphabets of the two-segment family."""
    Fb = FAR * w
    dw = 2 * w
    # the thorough alphabets (17 x as many programs) for three far placements - a page edge, the 16-page alias, the top of the address space;
    # every other placement of the thorough list with the quick alphabets (all of them with the thorough alphabets is > 2 hours on 16 cores)
    ww_ = w.bit_length() - 1
    quick = tier != 'thorough' or FAR not in ((1 << 14), 16 << 14, (1 << (w - ww_)) - 6)
    pos = [0, 1, 2, 3, FAR, FAR + 1, FAR + 2, FAR + 3]
    f0 = [0, Fb + dw, dw + 1] if quick else [0, Fb + dw, dw + 1, Fb - 1, Fb + w]
    # (Fb + 3w + 1: an unaligned op that starts inside the far segment's last word - at the top of memory its fetch leaves the address space)
    j0 = [Fb, Fb + w, Fb + 3 * w, Fb + 1, Fb + 3 * w + 1] if quick else [Fb, Fb + w, Fb + dw, Fb + 3 * w, Fb + 1, dw, Fb + 3 * w + 1]
    f1 = [0, Fb + 3 * w] if quick else [0, dw, Fb + 3 * w]
    j1 = [dw, Fb] if quick else [dw, Fb, 4 * w]
    ff0 = [0, dw + 1, 5 * w, Fb + 3 * w + 1] if quick else [0, dw + 1, 5 * w, Fb + 3 * w + 1, Fb + dw]
    fj0 = [dw, 4 * w, Fb + dw, Fb + w] if quick else [dw, 4 * w, Fb + dw, Fb, 0, Fb + w]
    ff1 = [0, dw + 1, Fb + w] if quick else [0, dw + 1, Fb + w, dw]
    fj1 = [4 * w, Fb + dw, Fb] if quick else [4 * w, Fb + dw, Fb, Fb + 3 * w]
    alph = [f0, j0, f1, j1, ff0, fj0, ff1, fj1]
    fixed = {4: 0, 5: 4 * w}
    segs = [(0, 6), (FAR, 4)]
    return segs, pos, alph, fixed


def knob_variants(w, FAR, tier):
    """(name, engine, ring, extra_kwargs, extra_env) - the storage/engine configurations."""
    K = H + 1
    v = [
        ('featured', 'featured', K, {}, {}),
        ('fast', 'fast', K, {}, {}),
        ('fast-noring', 'fast', None, {}, {}),
        ('paged', 'native-paged', None, {}, {}),
        ('paged-ring', 'native-paged', K, {}, {}),
        ('paged-ring2', 'native-paged', 2, {}, {}),
        ('measure', 'native-measure', None, {}, {}),
        ('measure-paged', 'native', None, {}, {'FLIPJUMP_MEASURE_SPECULATION': '1', 'FLIPJUMP_NO_FLAT': '1'}),
    ]
    windows = [1, 2, 3, 5, 6, 7]
    if FAR + 4 <= (1 << 24):
        windows += [FAR - 1, FAR, FAR + 1, FAR + 2, FAR + 3, FAR + 4, FAR + 5]
    windows = [x for x in dict.fromkeys(windows) if 1 <= x <= (1 << 24)]
    if tier != 'thorough' and FAR > (1 << 16):
        windows = [x for x in windows if x < 8 or x in (FAR + 1, FAR + 4)]
    for x in windows:
        v.append((f'win{x}', 'native', None, {'flat_max_words': x}, {}))
    v.append(('win3-ring', 'native', K, {'flat_max_words': 3}, {}))
    v.append(('win3-ring1', 'native', 1, {'flat_max_words': 3}, {}))
    v.append(('envwin7', 'native', None, {}, {'FLIPJUMP_FLAT_MAX_WORDS': '7'}))
    v.append(('envwin7-param5', 'native', 3, {'flat_max_words': 5}, {'FLIPJUMP_FLAT_MAX_WORDS': '7'}))
    if FAR + 4 <= (1 << 23):
        v.append(('default', 'native', None, {}, {}))
        v.append(('default-ring', 'native', K, {}, {}))
        v.append(('default-ring3', 'native', 3, {}, {}))
    else:
        # the default 2^23-word window: hybrid; allocates only up to the near segment's end
        v.append(('default', 'native', None, {}, {}))
        v.append(('default-ring', 'native', K, {}, {}))
    return v


def families(w, tier):
    """name -> (segments, positions, alphabets(list per position), fixed)"""
    fam = {}
    for FAR in far_values(w, tier):
        fam[f'sparse-{FAR}'] = sparse_program_space(w, FAR, tier) + (FAR,)
    # the same programs with a LONG low segment (a lazily-zero tail covering three whole 16K-word pages below the flat window) and the far
    # segment in a page whose index is a multiple of 64 (the low pages and the far page meet in the page table / cache)
    P = 1 << 14
    big_far = (1 << 40) if w == 64 else (1 << 26)   # (above 2^24: no explicit flat window reaches it, the default window stays hybrid)
    if w >= 32:   # (the 2^16-bit address space holds 4096 words: no room for three pages)
        segs, pos, alph, fixed = sparse_program_space(w, big_far, tier)
        fam[f'biglow-{big_far}'] = ([(0, 6 + 3 * P), (big_far, 4)], pos, alph, fixed, big_far)
    dw = 2 * w
    if w == 64:
        # words equal to the flat fill constant: as flip word, jump word, flip target, and a word
        # that BECOMES the constant by a flip; a gap inside the flat array (words 6,7 missing)
        m = MAGIC
        a = [0, dw, dw + 1, 4 * w, 5 * w, 8 * w, 6 * w, 9 * w + 1]
        fam['magic'] = ([(0, 6), (8, 4)], [0, 1, 2, 3, 8, 9], [a, [dw, 8 * w, 6 * w], [0, 5 * w, 9 * w, 10 * w], [4 * w, 8 * w, dw],
                                                         [0, 5 * w, 11 * w], [4 * w, 8 * w + 1, 8 * w]],
                        {4: 0, 5: m, 10: m ^ 1, 11: m}, 8)
    # a slice of C01's single-segment images through every storage knob
    # (the thorough tier used an 11-value alphabet here: 14 641 images x ~30 knob variants x 3 widths did not finish in 2.5 h on a
    #  shared box; the complete one4 / one6 spaces are C01's job, the knob product is what this check adds)
    sub = [0, 1, dw, dw + 1, w + 1, 3 * w, 4 * w - 1, 4 * w] if tier != 'thorough' else \
        [0, 1, dw, dw + 1, w + 1, 3 * w, 4 * w - 1, 4 * w, 3 * w + w.bit_length()]
    fam['one4'] = ([(0, 4)], [0, 1, 2, 3], [sub] * 4, {}, 4)
    # an op exactly at / right after the input bit (unaligned, 6 words): the input window of every storage configuration
    in_addr = 3 * w + w.bit_length()
    off = in_addr & (w - 1)
    mask = (1 << w) - 1
    a6 = [0, 1, dw + 1]
    for T in (in_addr, dw, 4 * w, in_addr + 1):
        a6 += [(T << off) & mask, T >> (w - off)]
    a6 = list(dict.fromkeys(a6))
    for j1 in (in_addr, in_addr + 1):
        fam[f'in6-{j1 - in_addr}'] = ([(0, 6)], [3, 4, 5], [a6, a6, a6], {0: 0, 1: j1, 2: 0}, 6)
    return fam


def widths(tier):
    return (16, 32, 64) if tier == 'thorough' else (32, 64)


def make_tasks(tier, only=None):
    tasks = []
    for w in widths(tier):
        for name, (segs, pos, alph, fixed, FAR) in families(w, tier).items():
            if only and only not in name:
                continue
            for i in range(len(alph[0])):
                for j in range(len(alph[1])):
                    tasks.append((tier, w, name, (i, j)))
    return tasks


DEVICE = None
WATCHDOGS = [0]  # engine runs that hit the watchdog in this worker; exploration stops after 25 (the run already fails)


def run_variants(image, answers, r, FAR, tier, sieve, counters):
    from fjv.enginecheck import write_image, compare, probe_words
    from fjv.engines import run_engine
    path = write_image(image)
    probe = probe_words(image, r)
    for name, engine, ring, kw, env in knob_variants(image.w, FAR, tier):
        dev = DEVICE(answers)
        o = run_engine(path, engine, dev, ring=ring, extra_kwargs=kw, extra_env=env, probe=probe, timeout=1.0)
        counters['engine_runs'] += 1
        if o.storage is not None:
            counters['storage:' + str(o.storage)] = counters.get('storage:' + str(o.storage), 0) + 1
            if o.storage not in ('flat', 'hybrid', 'paged'):
                sieve.add({'kind': 'storage-mode-string', 'case': {'image': image.to_json(), 'answers': answers, 'variant': name},
                           'expected': 'flat|hybrid|paged', 'observed': o.storage})
        if o.exc == 'Watchdog':
            WATCHDOGS[0] += 1
        diffs = compare(r, o, ring, image.w)
        if diffs:
            sieve.add({
                'kind': 'engine/storage-vs-machine',
                'case': {'image': image.to_json(), 'answers': answers, 'variant': name, 'engine': engine, 'ring': ring,
                         'kwargs': kw, 'env': env, 'FAR': FAR, 'storage': o.storage},
                'expected': {d[0]: d[1] for d in diffs},
                'observed': {d[0]: d[2] for d in diffs},
                'ref': {'cause': r.cause, 'ops': r.ops, 'fault': r.fault, 'trace': r.trace, 'steps': r.steps},
                'summary': f'w={image.w} FAR={FAR} variant={name} storage={o.storage} differs from the machine in {[d[0] for d in diffs]}',
            })


def work(task):
    global DEVICE
    if task[0] == 'pages':
        return work_pages(task)
    from fjv.enginecheck import answer_scripts, features
    from fjv.engines import make_device_class
    from fjv.ref import machine as R1
    if DEVICE is None:
        DEVICE = make_device_class()
    tier, w, name, pre = task
    segs, pos, alph, fixed, FAR = families(w, tier)[name]
    counters = {'images': 0, 'cases': 0, 'engine_runs': 0, 'skipped_horizon': 0, 'nontrivial': 0, 'capped_reads': 0}
    hist = {}
    sieve = Sieve(PROP, MATCHERS)
    sample = None
    import os
    devnull = os.open(os.devnull, os.O_WRONLY)
    saved_err = os.dup(2)
    os.dup2(devnull, 2)  # the engine warns on stderr when a flat allocation falls back to paged
    try:
        for combo in itertools.product(*alph[2:]):
            vals = [alph[0][pre[0]], alph[1][pre[1]]] + list(combo)
            data = dict(fixed)
            data.update(zip(pos, (v & ((1 << w) - 1) for v in vals)))
            image = R1.Image(w, segs, data)
            if WATCHDOGS[0] > 25:
                counters['aborted_after_watchdogs'] = 1
                break
            counters['images'] += 1
            for answers, r in answer_scripts(image, 1, H):
                if r.cause == R1.HORIZON:
                    counters['skipped_horizon'] += 1
                    continue
                if r.cause == R1.NEED_INPUT:
                    counters['capped_reads'] += 1
                    continue
                counters['cases'] += 1
                if len(r.trace) >= 2:
                    counters['nontrivial'] += 1
                for f in features(r, w):
                    hist[f] = hist.get(f, 0) + 1
                if any(ip >= FAR * w for ip in r.trace):
                    hist['executes_far_segment'] = hist.get('executes_far_segment', 0) + 1
                run_variants(image, answers, r, FAR, tier, sieve, counters)
                if sample is None and len(r.trace) >= 3:
                    sample = {'image': image.to_json(), 'answers': answers, 'cause': r.cause, 'ref_trace': r.steps,
                              'variants': [v[0] for v in knob_variants(w, FAR, tier)]}
    finally:
        os.dup2(saved_err, 2)
        os.close(saved_err)
        os.close(devnull)
    return counters, hist, sieve.result(), sample


# ------------------------------------------------------------------ many pages (page table growth, cache-slot pressure)
def page_sets(w):
    ww = w.bit_length() - 1
    maxpage = (1 << (w - ww)) >> 14
    sets = {
        'A37': [(k * 37 + 5) for k in range(40)],
        'B16': [(1 << 12) + k * 16 for k in range(40)],
        'Csq': [(k * k * 3 + 1) for k in range(70)],
        'D5': [(k * 5 + 2) for k in range(131)],
        'E64': [(1 << 10) + k * 64 + (k % 3) for k in range(66)],
    }
    if w == 64:
        sets['F40'] = [(1 << 26) + k * 977 for k in range(34)]
        sets['G57'] = [((1 << 43) - 1 - k * 12345) for k in range(33)]
    out = {}
    for name, pages in sets.items():
        pages = [p % (maxpage - 2) + 1 for p in pages]
        pages = list(dict.fromkeys(pages))
        if len(pages) >= 33:
            out[name] = pages
    return out


def pages_image(w, pages, order_mul, seg_order=None):
    """a chain through one 4-word segment per page: op k flips a bit of another segment's data word and jumps on;
    two passes, so evicted pages are touched again. returns (image, expected number of ops)"""
    from fjv.ref import machine as R1
    K = len(pages)
    base = [p * 16384 + 2 * (k % 7) * 2 for k, p in enumerate(pages)]  # word address of segment k
    order = [(k * order_mul) % K for k in range(K)]
    if len(set(order)) != K:
        order = list(range(K))
    segs = [(0, 2)] + [(b, 6) for b in base]
    second = None
    if seg_order:
        # a second, 2-word segment in every page (64 words above the first), and a segment table that is NOT in ascending order: the order
        # in which segments are declared means nothing (a table with inversions followed by an ascending tail, a descending tail, interleaved)
        second = [b + 64 for b in base]
        firsts, seconds = [(b, 6) for b in base], [(b, 2) for b in second]
        segs = [(0, 2)] + {'seconds-reversed-then-firsts': seconds[::-1] + firsts, 'firsts-then-seconds-reversed': firsts + seconds[::-1],
                           'interleaved': [x for pr in zip(seconds[::-1], firsts) for x in pr]}[seg_order]
    data = {0: 0, 1: base[order[0]] * w}
    for i, k in enumerate(order):
        tgt = order[(i * 5 + 3) % K]
        nxt = order[i + 1] if i + 1 < K else None
        # first-pass op (words 0,1), second-pass op (words 2,3), data words 4,5
        data[base[k]] = (base[tgt] + 4) * w + (i % w)
        data[base[k] + 1] = (base[nxt] * w) if nxt is not None else (base[order[0]] + 2) * w
        tgt2 = order[(i * 3 + 1) % K]
        data[base[k] + 2] = (base[tgt2] + 5) * w + ((i * 7) % w) if second is None or i % 2 else (second[tgt2] + 1) * w + ((i * 7) % w)
        if second is not None:
            data[second[k]] = 0
            data[second[k] + 1] = 0x33
        data[base[k] + 3] = ((base[nxt] + 2) * w) if nxt is not None else (base[k] + 2) * w  # the last op is a self loop
        data[base[k] + 4] = 0x5A5A & ((1 << w) - 1)
        data[base[k] + 5] = k
    return R1.Image(w, segs, data), 2 * K + 1


def work_pages(task, prop=None, matchers=None):
    global DEVICE
    from fjv.enginecheck import write_image, compare
    from fjv.engines import make_device_class, run_engine
    from fjv.ref import machine as R1
    if DEVICE is None:
        DEVICE = make_device_class()
    _, tier, w, name, mul = task[:5]
    seg_order = task[5] if len(task) > 5 else None
    pages = page_sets(w)[name]
    image, nops = pages_image(w, pages, mul, seg_order)
    r = R1.run(image, [], nops + 10)
    counters = {'images': 1, 'cases': 1, 'engine_runs': 0, 'skipped_horizon': 0, 'nontrivial': 1, 'capped_reads': 0}
    sieve = Sieve(prop or PROP, MATCHERS if matchers is None else matchers)
    assert r.cause == R1.LOOPING and r.ops == nops, (r.cause, r.ops, nops)
    path = write_image(image, f'pages-{w}-{name}-{mul}-{seg_order}.fjm')
    probe = sorted(r.mem)
    K = 40
    variants = [('featured', 'featured', K, {}, {}), ('fast', 'fast', None, {}, {}), ('paged', 'native-paged', None, {}, {}), ('paged-ring', 'native-paged', K, {}, {}),
                ('measure-paged', 'native', None, {}, {'FLIPJUMP_MEASURE_SPECULATION': '1', 'FLIPJUMP_NO_FLAT': '1'}), ('default', 'native', None, {}, {}),
                ('default-ring', 'native', K, {}, {}), ('win3', 'native', None, {'flat_max_words': 3}, {}), ('win3-ring', 'native', 5, {'flat_max_words': 3}, {}),
                ('measure', 'native-measure', None, {}, {}), ('win-mid', 'native', None, {'flat_max_words': (sorted(pages)[len(pages) // 2]) * 16384 + 3}, {})]
    variants = [v for v in variants if v[3].get('flat_max_words', 0) <= (1 << 24)]
    for vname, engine, ring, kw, env in variants:
        dev = DEVICE([])
        o = run_engine(path, engine, dev, ring=ring, extra_kwargs=kw, extra_env=env, probe=probe, timeout=10.0)
        counters['engine_runs'] += 1
        if o.storage:
            counters['storage:' + o.storage] = counters.get('storage:' + o.storage, 0) + 1
        diffs = compare(r, o, ring, w)
        if diffs:
            sieve.add({'kind': 'engine/storage-vs-machine (many pages)', 'case': {'w': w, 'page_set': name, 'pages': len(pages), 'order_mul': mul, 'segment_table_order': seg_order, 'variant': vname,
                                                                                 'engine': engine, 'ring': ring, 'kwargs': kw, 'env': env, 'storage': o.storage,
                                                                                 'image': {'w': w}, 'answers': [], 'FAR': None},
                       'expected': {d[0]: (d[1] if d[0] not in ('final_memory', 'last_ops') else '...') for d in diffs},
                       'observed': {d[0]: (d[2] if d[0] not in ('final_memory', 'last_ops') else '...') for d in diffs},
                       'ref': {'steps': [], 'trace': []},
                       'summary': f'w={w} {len(pages)} pages ({name}, order x{mul}) variant={vname}: differs from the machine in {[d[0] for d in diffs]}'})
    return counters, {'many_pages_programs': 1, 'executes_far_segment': 1}, sieve.result(), {'page_set': name, 'w': w, 'pages': len(pages), 'ops': nops}


def known_paged_alias(record, sig):
    """F10: paged storage; the op's page and the page its flip lands in share a slot of the 16-way
    direct-mapped page cache (page index equal mod 16, pages different)."""
    case = record['case']
    if case.get('storage') != 'paged':
        return False
    w = case['image']['w']
    ww = w.bit_length() - 1
    for ip, f, j in record['ref']['steps']:
        if f is None:
            continue
        p_op = (ip >> ww) >> 14
        p_op2 = ((ip >> ww) + 1) >> 14
        p_f = (f >> ww) >> 14
        if (p_f != p_op and (p_f - p_op) % 16 == 0) or (p_f != p_op2 and (p_f - p_op2) % 16 == 0):
            return True
    return False


def known_w64_top(record, sig):
    case = record['case']
    if case['image']['w'] != 64:
        return False
    return any(ip + 128 > (1 << 64) for ip in record['ref']['trace'])


MATCHERS = {'paged_hot_lane_alias_evicts_op_page': known_paged_alias, 'w64_op_straddles_top': known_w64_top}


def replay(args):
    global DEVICE
    from fjv.engines import make_device_class
    from fjv.ref import machine as R1
    from fjv.runner import install_watchdog
    from fjv.enginecheck import write_image, compare, probe_words
    from fjv.engines import run_engine
    install_watchdog()
    DEVICE = make_device_class()
    rec = load_replay(args.replay)
    c = rec['case']
    image = R1.Image.from_json(c['image'])
    r = R1.run(image, c['answers'], H)
    path = write_image(image)
    dev = DEVICE(c['answers'])
    o = run_engine(path, c['engine'], dev, ring=c['ring'], extra_kwargs=c['kwargs'], extra_env=c['env'], probe=probe_words(image, r))
    diffs = compare(r, o, c['ring'], image.w)
    print('reference:', {'cause': r.cause, 'ops': r.ops, 'fault': r.fault, 'steps': r.steps})
    print('observed :', o.as_dict())
    if diffs:
        print('DIFF', diffs)
        print(f'VIOLATION property={PROP} replay={args.replay}')
        return 1
    print('replay: agrees with the machine definition')
    return 0


def main():
    args = parse_args(PROP)
    bind('plain')
    if args.replay:
        return replay(args)
    run = Run(PROP, 'exploration', args, MATCHERS)
    tasks = make_tasks(args.tier, args.only)
    if not args.only or args.only == 'pages':
        for w in (32, 64):
            for name in page_sets(w):
                for mul in ((1, 7, 11, 13) if args.tier == 'thorough' else (1, 11)):
                    tasks.append(('pages', args.tier, w, name, mul))
            for name in list(page_sets(w))[:2 if args.tier != 'thorough' else 4]:
                for seg_order in ('seconds-reversed-then-firsts', 'firsts-then-seconds-reversed', 'interleaved'):
                    tasks.append(('pages', args.tier, w, name, 11, seg_order))
    total, hist, samples = {}, {}, []
    for counters, h, res, sample in pmap(work, tasks, args.jobs):
        for k, v in counters.items():
            total[k] = total.get(k, 0) + v
        for k, v in h.items():
            hist[k] = hist.get(k, 0) + v
        run.merge(res)
        if sample and len(samples) < 3:
            samples.append(sample)
    storage = {k: v for k, v in total.items() if k.startswith('storage:')}
    need = ['storage:flat', 'storage:hybrid', 'storage:paged']
    missing = [n for n in need if not storage.get(n)]
    if not args.only:
        missing += [n for n in ('executes_far_segment', 'odd_word_op', 'unaligned_op', 'output', 'cause:runtime-memory-error',
                                'cause:looping', 'cause:ip<2w') if not hist.get(n)]
    if missing:
        print(f'CHECK-INTERNAL-ERROR vacuous exploration, missing {missing}', file=sys.stderr)
    cov = {
        'evaluations': total.get('engine_runs', 0),
        'distinct_nontrivial': total.get('nontrivial', 0),
        'rule': 'programs = every assignment of per-word symbolic alphabets (addresses relative to the far segment, page / '
                'window edges, IO bits) in each family, pairwise distinct; non-trivial = the reference run terminates within '
                'the horizon and starts >= 2 ops; evaluations = runs of one program under one engine/storage configuration, '
                'each compared with R1 on cause, ops, fault address, IO calls, last-ops list and final memory',
        'samples': samples,
        'programs': total.get('images', 0),
        'cases': total.get('cases', 0),
        'skipped_beyond_horizon': total.get('skipped_horizon', 0),
        'storage_modes_observed': storage,
        'behaviour_histogram': hist,
        'bounds': {'widths': list(widths(args.tier)), 'far_segments': {str(w): far_values(w, args.tier) for w in widths(args.tier)},
                   'horizon_ops': H, 'explicit_windows_capped_at_words': 1 << 24},
        'exhaustive': not missing,
    }
    code = run.finish(cov, assumptions=[
        'R1 is the machine definition (cross-checked by three engines)',
        'final memory is read back through the public DeviceMemory hook the run attaches to the device',
        'explicit flat windows are bounded to 2^24 words so that a check never allocates more than 128 MB'])
    return 2 if missing and not code else code


if __name__ == '__main__':
    main_guard(main)
