"""C02 - the assembled image equals the denotation of the macro-free source.

K1 sequence enumeration: every sequence of primitive statements up to depth k over 29 statement
shapes (ops over literals / backward+forward labels / `$` / constants / label+-k*w, seven wflip
forms chosen to force sharing and non-sharing, pad 1|2|3|4|6, six segment placements, four reserves)
x w in {8,16,32,64} x fjm versions. Oracle R3 (below): a two-pass denotation (addresses, labels,
`$`; expression values by R5) + a behavioural *chain walker* that executes every wflip chain out
of the assembled image. Impossible layouts must be rejected.
"""
import itertools
import sys

from fjv.bind import bind
from fjv.runner import Run, Sieve, parse_args, pmap, load_replay, main_guard

PROP = 'C02'

# ------------------------------------------------------------------ statement shapes
# a shape is (name, fn(i, w) -> (text, abstract)); abstract uses R5 trees with ('id', name) leaves.
# every op / wflip statement i is preceded by the label L<i>.


def L(k, direction=0):
    """reference to the labelled statement nearest to index k (searching in `direction`); resolved in denote()"""
    return ('ref', k, direction)


W_ = ('id', 'w')
DOLLAR = ('id', '$')


def shapes():
    S = []

    def op(name, f, j):
        S.append((name, lambda i, n, f=f, j=j: ('op', f(i, n), j(i, n) if j else None)))

    prev = lambda i, n: L(i - 1, -1)  # noqa
    nxt = lambda i, n: L(i + 1, 1)  # noqa
    zero = lambda i, n: 0  # noqa
    op('nop', zero, None)
    op('lit', lambda i, n: 5, None)
    op('jback', zero, prev)
    op('jfwd', zero, nxt)
    op('dollar', lambda i, n: DOLLAR, lambda i, n: ('-', DOLLAR, ('*', 2, W_)))
    op('ownjump', lambda i, n: ('+', L(i), W_), lambda i, n: L(0, 1))
    op('const', lambda i, n: ('id', 'c0'), lambda i, n: ('+', nxt(i, n), ('*', ('id', 'c1'), W_)))
    op('neg', lambda i, n: ('-', L(0, 1), ('*', 4, W_)), None)
    # unary minus binds tighter than / and % (floor division): -7/2+8 == 4 and -9%4 == 3
    op('unary-prec', lambda i, n: ('+', ('/', ('-', 7), 2), 8), lambda i, n: ('+', L(0, 1), ('*', ('%', ('-', 9), 4), ('*', 2, W_))))
    # a string literal with a hex escape that is not its first character (little-endian: "0\\x41" is 0x4130), and a char literal with one
    op('str-hex', lambda i, n: ('>>', ('raw', '"0\\x41"', 0x4130), 8), lambda i, n: ('+', L(0, 1), ('*', ('-', ('raw', "'\\x02'", 2), 2), W_)))
    # a conditional whose else-branch is another conditional, without parentheses: c1 ? a : (c2 ? b : d)
    op('cond-chain', lambda i, n: ('?:', 1, 0, ('?:', 0, 5, 7)), lambda i, n: ('+', L(0, 1), ('*', ('?:', 1, 0, ('?:', 1, 2, 4)), W_)))
    op('jump-2^w', zero, lambda i, n: ('+', ('<<', 1, W_), ('*', 2, W_)))  # a jump word of 2^w + 2w: does not fit (a relative-jump file version must not wrap it)
    op('jump-neg', zero, lambda i, n: ('-', L(0, 1), ('*', 2, W_)))        # a negative jump word unless far from 0  # negative / out-of-range flip word unless far from 0

    def wf(name, a, v, r):
        S.append((name, lambda i, n, a=a, v=v, r=r: ('wflip', a(i, n), v(i, n), r(i, n) if r else None)))

    first = lambda i, n: L(0, 1)  # noqa
    wf('wf-own6', lambda i, n: L(i), lambda i, n: 6, None)
    wf('wf-14-r0', first, lambda i, n: 14, first)
    wf('wf-6-r0', first, lambda i, n: 6, first)
    wf('wf-6-r1', first, lambda i, n: 6, lambda i, n: L(1, 1))
    wf('wf-0', first, lambda i, n: 0, None)
    wf('wf-top', first, lambda i, n: ('<<', 1, ('-', W_, 1)), None)
    wf('wf-all', first, lambda i, n: ('-', ('<<', 1, W_), 1), nxt)
    wf('wf-neg-1', first, lambda i, n: ('-', 0, 1), None)        # a negative value has no finite set of bits to flip: rejected
    wf('wf-not-5', first, lambda i, n: ('~', 5), first)
    wf('wf-ret-2^w', first, lambda i, n: 6, lambda i, n: ('+', ('<<', 1, W_), ('*', 4, W_)))  # a return address that does not fit
    # `$` (the address after the statement) in exactly one of the three operands of a 3-operand wflip
    wf('wf-$addr', lambda i, n: ('-', DOLLAR, ('*', 2, W_)), lambda i, n: 6, first)
    wf('wf-$value', first, lambda i, n: ('&', DOLLAR, 14), first)
    wf('wf-$ret', first, lambda i, n: 6, lambda i, n: DOLLAR)
    for k in (1, 2, 3, 4, 6):
        S.append((f'pad{k}', lambda i, n, k=k: ('pad', k)))
    for kind in ('adjacent', 'gap', 'overlap0', 'unaligned', 'walign', 'huge', 'top'):
        S.append((f'seg-{kind}', lambda i, n, kind=kind: ('segment', kind)))
    for kind, tree in (('w', W_), ('2w', ('*', 2, W_)), ('lazy', ('*', 1002, W_)), ('half', ('/', W_, 2)), ('neg', ('-', 0, ('*', 2, W_))), ('zero', ('-', W_, W_))):
        S.append((f'res-{kind}', lambda i, n, tree=tree: ('reserve', tree)))
    return S


SHAPES = shapes()


# ------------------------------------------------------------------ R3: the denotation
class Impossible(Exception):
    pass


def denote(seq, w):
    """seq: tuple of shape indices. -> dict(text, ops, wflips, labels, reserves, segs, impossible, ambiguous)"""
    from fjv.ref import expr as R5
    dw = 2 * w
    n = len(seq)
    consts = {'w': w, 'c0': 3 * w, 'c1': 2}
    lines = [f'c0 = 3*w', f'c1 = 2']
    labels = {}
    cur = 0
    segs = [[0, 0]]  # [start, user_end] per source segment
    stmts = []       # (kind, addr, abstract)
    reserves = []    # (start, end) bit ranges
    pads = []        # (start, end)
    impossible = None
    uneven = False

    def ev(t, env):
        try:
            return R5.ev(t, env)
        except KeyError as e:
            raise Impossible(f'unresolved label {e} in a directive')
        except R5.EvalError as e:
            raise Impossible(f'undefined arithmetic {e}')

    labelled = [i for i, si in enumerate(seq) if SHAPES[si][1](i, n)[0] in ('op', 'wflip')]

    def resolve(t, own):
        if isinstance(t, tuple):
            if t[0] == 'ref':
                _, k, d = t
                cands = [m for m in labelled if (m >= k if d >= 0 else m <= k)]
                if d < 0:
                    m = max(cands) if cands else own
                else:
                    m = min(cands) if cands else (max(labelled) if labelled else own)
                return ('id', f'L{m}')
            return tuple(resolve(c, own) if isinstance(c, tuple) else c for c in t)
        return t

    try:
        for i, si in enumerate(seq):
            name, fn = SHAPES[si]
            ab = resolve(fn(i, n), i)
            kind = ab[0]
            if kind in ('op', 'wflip'):
                labels[f'L{i}'] = cur
                lines.append(f'L{i}:')
                addr = cur
                cur += dw
                if kind == 'op':
                    f, j = ab[1], ab[2]
                    lines.append('  ' + R5.render(f) + ';' + (R5.render(j) if j is not None else ''))
                else:
                    a, v, r = ab[1:]
                    lines.append('  wflip ' + R5.render(a) + ', ' + R5.render(v) + (', ' + R5.render(r) if r is not None else ''))
                stmts.append((kind, addr, ab, cur))
            elif kind == 'pad':
                lines.append(f'pad {ab[1]}')
                if cur % dw:
                    raise Impossible('pad at an address that is not op-aligned')
                k = (-cur // dw) % ab[1]
                if k:
                    pads.append((cur, cur + k * dw))
                cur += k * dw
            elif kind == 'segment':
                base = (cur + dw - 1) // dw * dw
                addr = {'adjacent': base, 'gap': base + 8 * dw, 'overlap0': 0, 'unaligned': base + 1, 'walign': base + w,
                        'huge': 1 << w, 'top': (1 << w) - 2 * dw}[ab[1]]  # top: room for exactly two more ops below 2^w
                lines.append(f'segment {addr}')
                if addr % w:
                    raise Impossible('segment address is not w-aligned')
                segs[-1][1] = cur
                if (cur - segs[-1][0]) % dw:
                    uneven = True
                segs.append([addr, addr])
                cur = addr
            elif kind == 'reserve':
                lines.append('reserve ' + R5.render(ab[1]))
                size = ev(ab[1], dict(consts, **labels))
                if size % w:
                    raise Impossible('reserve size is not w-aligned')
                if size < 0:
                    raise Impossible('a negative reserve (the address would move backwards, over what precedes it)')
                if size:
                    reserves.append((cur, cur + size))
                cur += size
        segs[-1][1] = cur
    except Impossible as e:
        impossible = str(e)
    text = '\n'.join(lines) + '\n'
    res = {'text': text, 'impossible': impossible, 'ambiguous': None, 'labels': labels, 'segs': segs, 'reserves': reserves,
           'pads': pads, 'ops': {}, 'wflips': [], 'user': []}
    if impossible:
        return res
    # values
    env_base = dict(consts, **labels)
    aux_upper = 0
    try:
        for kind, addr, ab, after in stmts:
            env = dict(env_base)
            env['$'] = after
            res['user'].append((addr, after))
            if kind == 'op':
                f = R5.ev(ab[1], env)
                j = R5.ev(ab[2], env) if ab[2] is not None else after
                for v in (f, j):
                    if not 0 <= v < (1 << w):
                        raise Impossible(f'word value {v} outside [0, 2^w)')
                res['ops'][addr] = (f, j)
            else:
                a = R5.ev(ab[1], env)
                v = R5.ev(ab[2], env)
                r = R5.ev(ab[3], env) if ab[3] is not None else after
                if not 0 <= v < (1 << w):
                    raise Impossible('wflip value outside [0, 2^w)')
                if not 0 <= r < (1 << w):
                    raise Impossible('wflip return address outside [0, 2^w)')
                bits = [a + b for b in range(w) if v >> b & 1]
                if any(not 0 <= x < (1 << w) for x in bits):
                    raise Impossible('wflip flips an address outside [0, 2^w)')
                res['wflips'].append((addr, a, v, r))
                aux_upper += max(len(bits) - 1, 0)
    except Impossible as e:
        res['impossible'] = str(e)
        return res
    # layout feasibility
    live = [(s, e) for s, e in segs if e > s]
    if any(e == s and not 0 <= s < (1 << w) for s, e in segs):
        # an EMPTY segment asked for at an address outside the memory: nothing is placed there, so the program has an image - but refusing the
        # address is just as defensible (the unchanged tree does either, depending on whether a zero-sized reserve follows)
        res['ambiguous'] = 'an empty segment at an address outside the memory'
    if not any(s == 0 for s, e in live):
        res['impossible'] = 'no first op at address 0'
        return res
    if any(e > (1 << w) for s, e in live):
        res['impossible'] = 'address beyond 2^w'
        return res
    # each emitted piece (source segment split at reserves) must hold whole ops -> every reserve must keep 2w alignment
    for (s, e) in live:
        if s % dw:
            res['impossible'] = 'a non-empty segment starts at an address that is not 2w-aligned (segments hold whole ops)'
            return res
        if (e - s) % dw:
            res['impossible'] = 'segment length is an odd number of words'
            return res
    for (a, b) in reserves:
        if a % dw or b % dw:
            res['impossible'] = 'reserve leaves an odd number of words in a segment piece'
            return res
    for x, y in itertools.combinations(live, 2):
        if x[0] < y[1] and y[0] < x[1]:
            res['impossible'] = 'user ranges of two segments overlap'
            return res
    # implementation-chosen wflip area: may collide with a following segment or the end of the address space
    if aux_upper:
        ends = sorted(live)
        for idx, (s, e) in enumerate(ends):
            limit = ends[idx + 1][0] if idx + 1 < len(ends) else (1 << w)
            if e + aux_upper * dw > limit:
                res['ambiguous'] = 'the wflip area may not fit before the next segment / the end of memory'
    return res


def assemble_case(text, w, version, wd):
    """-> ('ok', reader, labels) | ('rejected', exc_name, msg) | ('raw', exc_name, msg)"""
    from fjv.asm import assemble_text
    from flipjump.fjm.fjm_reader import Reader
    from flipjump.utils.exceptions import FlipJumpException
    from flipjump.utils.functions import load_debugging_labels
    out, dbg = wd / 'c02.fjm', wd / 'c02.fjd'
    for p in (out, dbg):
        if p.exists():
            p.unlink()
    try:
        assemble_text(text, out, wd, w=w, version=version, use_stl=False, werror=False, debug_path=dbg)
    except FlipJumpException as e:
        return ('rejected', type(e).__name__, str(e)[:200])
    except Exception as e:  # noqa
        return ('raw', type(e).__name__, str(e)[:200])
    try:
        return ('ok', Reader(out), load_debugging_labels(dbg))
    except Exception as e:  # noqa
        return ('unreadable', type(e).__name__, str(e)[:200])


def check_image(den, r, labels, w):
    """compare the loaded image with the denotation. -> list of (what, expected, observed)"""
    from fjv.ref import fjm as R2
    dw = 2 * w
    problems = []
    words, lazy, segs = R2.reader_image(r)

    def at(wa):
        return R2.value_at(words, lazy, segs, wa)

    for addr, (f, j) in den['ops'].items():
        got = (at(addr // w), at(addr // w + 1))
        if got != (f, j):
            problems.append((f'statement at {addr}', (f, j), got))
    for name, addr in den['labels'].items():
        if labels.get(name) != addr:
            problems.append((f'label {name}', addr, labels.get(name)))
    for a, b in den['reserves']:
        for wa in {a // w, (a + b) // (2 * w), b // w - 1}:
            if at(wa) != 0:
                problems.append((f'reserved word {wa}', 0, at(wa)))
    for s, e in den['segs']:
        if e > s and at(s // w) is None:
            problems.append((f'segment at {s}', 'present', 'missing'))
    # wflip chains, executed out of the image
    user = den['user']
    res = den['reserves']
    aux_seen = {}
    for addr, a, v, r_ in den['wflips']:
        want = {a + b for b in range(w) if v >> b & 1} or {0}
        ip, flips, visited = addr, [], []
        ok = True
        for _ in range(w + 1):
            f, j = at(ip // w), at(ip // w + 1)
            if f is None or j is None:
                problems.append((f'wflip at {addr}: chain leaves the segments at {ip}', 'in a segment', 'outside'))
                ok = False
                break
            if ip != addr:
                if ip % dw or ip in visited:
                    problems.append((f'wflip at {addr}: auxiliary op address {ip}', '2w-aligned, fresh', 'bad'))
                    ok = False
                    break
                if any(s <= ip < e for s, e in user) or any(s <= ip < e for s, e in res):
                    problems.append((f'wflip at {addr}: auxiliary op at {ip} overlaps a user statement / reserved space', 'free space', 'overlap'))
                    ok = False
                    break
                aux_seen.setdefault(ip, set()).add((f, j))
            visited.append(ip)
            flips.append(f)
            if len(flips) == len(want):
                if j != r_:
                    problems.append((f'wflip at {addr}: arrives at', r_, j))
                    ok = False
                break
            ip = j
        if ok and (set(flips) != want or len(flips) != len(want)):
            problems.append((f'wflip at {addr}: flipped addresses', sorted(want), flips))
    return problems


def check_sequence(seq, w, versions, wd, sieve, stats):
    den = denote(seq, w)
    key_img = None
    names = [SHAPES[s][0] for s in seq]
    for version in versions:
        out = assemble_case(den['text'], w, version, wd)
        stats['assemblies'] += 1
        case = {'w': w, 'version': version, 'shapes': names, 'text': den['text']}

        def bad(kind, expected, observed, cls=None):
            sieve.add({'kind': kind, 'class': cls or kind, 'case': case, 'expected': expected, 'observed': observed,
                       'denotation': {'impossible': den['impossible'], 'ambiguous': den['ambiguous']},
                       'summary': f'w={w} v={version} {names}: {kind}: {str(observed)[:160]}'})

        if out[0] == 'unreadable':
            bad('the assembler reported success but wrote a file that cannot be loaded', 'rejected (' + den['impossible'] + ')' if den['impossible'] else 'a loadable image',
                f'{out[1]}: {out[2]}', 'unreadable output: ' + out[2][:40])
            continue
        if out[0] == 'raw':
            bad('raw exception from the assembler', 'a FlipJumpException or an image', f'{out[1]}: {out[2]}', 'raw ' + out[1])
            continue
        if den['impossible']:
            stats['impossible'] += 1
            if out[0] == 'ok':
                bad('impossible layout was assembled', 'rejected (' + den['impossible'] + ')', 'assembled', 'accepted: ' + den['impossible'])
            continue
        if out[0] == 'rejected':
            if den['ambiguous']:
                stats['ambiguous_rejected'] = stats.get('ambiguous_rejected', 0) + 1
            else:
                bad('valid program rejected', 'assembled', f'{out[1]}: {out[2]}', 'valid rejected: ' + out[2][:40])
            continue
        stats['assembled_ok'] += 1
        problems = check_image(den, out[1], out[2], w)
        if problems:
            bad('image differs from the denotation', {p[0]: p[1] for p in problems[:6]}, {p[0]: p[2] for p in problems[:6]},
                'image: ' + problems[0][0].split(':')[0].split(' at ')[0])
        from fjv.ref import fjm as R2
        img = R2.normalize(*R2.reader_image(out[1]))
        if key_img is None:
            key_img = img
        elif img != key_img:
            bad('image depends on the fjm version', 'identical images', 'different')
    return den


def all_sequences(depth):
    n = len(SHAPES)
    for d in range(1, depth + 1):
        yield from itertools.product(range(n), repeat=d)


def work(task):
    from fjv.enginecheck import scratch
    tier, w, depth, versions, part, nparts, slice_mod, slice_idx = task[:8]
    core = task[8] if len(task) > 8 else None
    sieve = Sieve(PROP, MATCHERS)
    stats = {'assemblies': 0, 'sequences': 0, 'impossible': 0, 'assembled_ok': 0, 'with_wflip_ok': 0, 'multi_segment_ok': 0}
    wd = scratch()
    sample = None
    gen = itertools.product(range(len(SHAPES)) if core is None else core, repeat=depth)
    for i, seq in enumerate(gen):
        if i % nparts != part:
            continue
        if slice_mod > 1 and (i // nparts) % slice_mod != slice_idx:
            continue
        stats['sequences'] += 1
        before = stats['assembled_ok']
        den = check_sequence(seq, w, versions, wd, sieve, stats)
        if stats['assembled_ok'] > before:
            if den['wflips']:
                stats['with_wflip_ok'] += 1
            if sum(1 for s, e in den['segs'] if e > s) > 1:
                stats['multi_segment_ok'] += 1
            if sample is None and den['wflips'] and len(seq) >= 3:
                sample = {'w': w, 'shapes': [SHAPES[s][0] for s in seq], 'text': den['text']}
    return stats, sieve.result(), sample


MATCHERS = {}


def make_tasks(tier, seed, only=None):
    tasks = []
    if tier == 'thorough':
        for w in (8, 16, 32, 64):
            for d in (1, 2, 3):
                for p in range(4 if d < 3 else 16):
                    tasks.append((tier, w, d, (0, 1, 2, 3), p, 4 if d < 3 else 16, 1, 0))
        for w in (16, 64):
            for p in range(64):
                tasks.append((tier, w, 4, (1, 3), p, 64, 1, 0))
    else:
        for w in (8, 16, 32, 64):
            for d in (1, 2):
                tasks.append((tier, w, d, (0, 1, 2, 3), 0, 1, 1, 0))
            for p in range(8):
                tasks.append((tier, w, 3, (1, 3), p, 8, 1, 0))
        # a deterministic 1/24 slice of depth 4, rotated by VERIF_SEED (the union over seeds is the thorough space)
        for p in range(16):
            tasks.append((tier, 16, 4, (1,), p, 16, 48, seed % 48))
        # depth 4 (and 5 for a smaller core) completely over a core alphabet: the interplay pad / reserve / segment / wflip
        names = [s[0] for s in SHAPES]
        core4 = tuple(names.index(x) for x in ('nop', 'jfwd', 'wf-own6', 'wf-14-r0', 'wf-6-r0', 'wf-all', 'pad2', 'pad3', 'pad4',
                                               'seg-gap', 'seg-adjacent', 'seg-overlap0', 'res-2w', 'res-lazy'))
        core5 = tuple(names.index(x) for x in ('nop', 'wf-own6', 'wf-14-r0', 'pad2', 'seg-gap', 'res-2w'))
        for w in (16, 64):
            for p in range(8):
                tasks.append((tier, w, 4, (1,), p, 8, 1, 0, core4))
            for p in range(4):
                tasks.append((tier, w, 5, (3,), p, 4, 1, 0, core5))
    return tasks


def replay(args):
    from fjv.enginecheck import scratch
    rec = load_replay(args.replay)
    c = rec['case']
    names = [s[0] for s in SHAPES]
    seq = tuple(names.index(x) for x in c['shapes'])
    sieve = Sieve(PROP)
    stats = {'assemblies': 0, 'sequences': 0, 'impossible': 0, 'assembled_ok': 0}
    den = check_sequence(seq, c['w'], (c['version'],), scratch(), sieve, stats)
    print(den['text'])
    print('denotation: impossible=%s ambiguous=%s' % (den['impossible'], den['ambiguous']))
    for r in sieve.records:
        print('PROBLEM', r['summary'], r['expected'], r['observed'])
    if sieve.records:
        print(f'VIOLATION property={PROP} replay={args.replay}')
        return 1
    print('replay: ok')
    return 0


def main():
    args = parse_args(PROP)
    bind('plain')
    if args.replay:
        return replay(args)
    run = Run(PROP, 'exploration', args, MATCHERS)
    total, samples = {}, []
    for stats, res, sample in pmap(work, make_tasks(args.tier, args.seed, args.only), args.jobs):
        for k, v in stats.items():
            total[k] = total.get(k, 0) + v
        run.merge(res)
        if sample and len(samples) < 3:
            samples.append(sample)
    vac = [k for k in ('assembled_ok', 'impossible', 'with_wflip_ok', 'multi_segment_ok') if not total.get(k)]
    if vac:
        print(f'CHECK-INTERNAL-ERROR vacuous: {vac}', file=sys.stderr)
    cov = {
        'evaluations': total.get('assemblies', 0),
        'distinct_nontrivial': total.get('assembled_ok', 0),
        'rule': f'evaluations = assemblies of one statement sequence at one width and version (sequences are distinct tuples over {len(SHAPES)} shapes); '
                'non-trivial = the layout is possible, the program assembled and its image was compared statement by statement with every '
                'wflip chain executed',
        'samples': samples or [{'note': 'none'}],
        'sequences': total.get('sequences', 0),
        'impossible_layout_runs': total.get('impossible', 0),
        'programs_with_wflip_checked': total.get('with_wflip_ok', 0),
        'multi_segment_programs_checked': total.get('multi_segment_ok', 0),
        'ambiguous_rejected': total.get('ambiguous_rejected', 0),
        'bounds': {'shapes': [s[0] for s in SHAPES], 'depth': 4 if args.tier == 'thorough' else f'3 over all {len(SHAPES)} shapes; depth 4 over a 14-shape core and depth 5 over a 6-shape core; + a 1/48 slice of full depth 4 chosen by VERIF_SEED',
                   'widths': [8, 16, 32, 64]},
        'exhaustive': not vac,
    }
    code = run.finish(cov, assumptions=[
        'R3 (denote) + R5 are the denotation; a wflip is specified behaviourally (the chain is executed), so any placement / sharing strategy is accepted',
        'a rejection is accepted when the implementation-chosen wflip area may not fit (ambiguous layouts)'])
    return 2 if vac and not code else code


if __name__ == '__main__':
    main_guard(main)
