"""C17 - bit-level IO devices are byte-exact.

Explicit-state search (K2a) over the real device objects: a state is the live object (deep-copied),
a transition calls one real method; states are de-duplicated by the object's full attribute
dictionary (equal attributes => equal futures, the devices are deterministic). Oracle = packing
model R7. Plus the straight-line claims: every bit string of length <= 16, every input of length <= 2
over all 256 byte values, every keyboard event script of <= 3 events x read counts.
"""
import copy
import io
import itertools
import sys

from fjv.bind import bind
from fjv.runner import Run, Sieve, parse_args, pmap, load_replay, main_guard

PROP = 'C17'
OPS = ('read', 'w0', 'w1', 'get', 'get_inc')


# ------------------------------------------------------------------ model R7 (bit packing)
class PackModel:
    """input bytes -> bits lsb-first, EOF after the last bit (and forever after);
    written bits -> bytes lsb-first, an incomplete trailing byte is reported."""

    def __init__(self, data: bytes):
        self.bits = [(b >> i) & 1 for b in data for i in range(8)]
        self.nread = 0
        self.out = []

    def step(self, op):
        if op == 'read':
            if self.nread >= len(self.bits):
                return ('EOF',)
            self.nread += 1
            return ('bit', self.bits[self.nread - 1])
        if op == 'w0' or op == 'w1':
            self.out.append(int(op == 'w1'))
            return ('ok',)
        full = len(self.out) // 8
        data = bytes(sum(self.out[8 * k + i] << i for i in range(8)) for k in range(full))
        if op == 'get' and len(self.out) % 8:
            return ('Incomplete',)
        return ('bytes', data)

    def clone(self):
        m = PackModel(b'')
        m.bits, m.nread, m.out = self.bits, self.nread, list(self.out)
        return m


def apply_op(dev, op):
    """call the real device; normalise the outcome."""
    from flipjump.utils.exceptions import IOReadOnEOF, IncompleteOutput
    try:
        if op == 'read':
            return ('bit', int(bool(dev.read_bit())))
        if op == 'w0':
            dev.write_bit(False)
            return ('ok',)
        if op == 'w1':
            dev.write_bit(True)
            return ('ok',)
        r = dev.get_output() if op == 'get' else dev.get_output(allow_incomplete_output=True)
        if not isinstance(r, bytes):
            return ('not-bytes', type(r).__name__)  # the collected output is an immutable bytes value, not a live buffer
        return ('bytes', bytes(r))
    except IOReadOnEOF:
        return ('EOF',)
    except IncompleteOutput:
        return ('Incomplete',)
    except Exception as e:  # noqa
        return ('exception', type(e).__name__)


# ------------------------------------------------------------------ device adapters
def _canon_attr(v):
    """attribute value -> hashable canonical form (a memoryview's repr is its address, not its content)"""
    if isinstance(v, memoryview):
        return ('memoryview', bytes(v))
    return repr(v)


class FixedAdapter:
    name = 'FixedIO'

    def __init__(self, data):
        self.data = bytes(data)
        self.dev = self._fresh()

    def _fresh(self):
        from flipjump.interpreter.io_devices.FixedIO import FixedIO
        return FixedIO(self.data)

    def snapshot(self, hist=()):
        """a deep copy of the live device; if the device cannot be copied (e.g. it holds a memoryview) the state is the
        op history that reaches it, replayed on a fresh device by restore()"""
        try:
            return ('copy', copy.deepcopy(self.dev))
        except Exception:  # noqa
            return ('replay', tuple(hist))

    def restore(self, snap):
        if snap[0] == 'copy':
            self.dev = copy.deepcopy(snap[1])
        else:
            self.dev = self._fresh()
            for op in snap[1]:
                apply_op(self.dev, op)

    def key(self):
        return tuple(sorted((k, _canon_attr(v)) for k, v in vars(self.dev).items()))

    def extra_check(self, model, flushed=False):
        return None


class KeyboardOutAdapter(FixedAdapter):
    """the OUTPUT side of the keyboard device (it collects written bits like the other devices); no key events"""
    name = 'KeyboardIO(output)'

    def _fresh(self):
        from flipjump.interpreter.io_devices.KeyboardIO import KeyboardIO, ScriptedKeyEventSource
        return KeyboardIO(ScriptedKeyEventSource([]))


class StandardAdapter:
    """StandardIO binds sys.stdin/stdout at import: the module attributes are replaced."""
    name = 'StandardIO'

    def __init__(self, data, verbose=True):
        import flipjump.interpreter.io_devices  # noqa
        self.mod = sys.modules['flipjump.interpreter.io_devices.StandardIO']
        self.stdin = io.StringIO(''.join(chr(b) for b in data))
        self.stdout = io.StringIO()
        self.verbose = verbose
        self.dev = self.mod.StandardIO(verbose)

    def _bind(self):
        self.mod.stdin, self.mod.stdout = self.stdin, self.stdout

    def snapshot(self, hist=()):
        return (copy.deepcopy(self.dev), self.stdin.tell(), self.stdout.getvalue())

    def restore(self, snap):
        self.dev = copy.deepcopy(snap[0])
        self.stdin.seek(snap[1])
        self.stdout = io.StringIO()
        self.stdout.write(snap[2])

    def key(self):
        return (tuple(sorted((k, _canon_attr(v)) for k, v in vars(self.dev).items())), self.stdin.tell(), self.stdout.getvalue())

    def extra_check(self, model, flushed=False):
        """the echo on stdout is the chars of the complete bytes written so far - one char per byte value, never re-interpreted;
        it may lag behind (buffering is allowed), but after a get_output call everything has been printed."""
        full = len(model.out) // 8
        exp = ''.join(chr(sum(model.out[8 * k + i] << i for i in range(8))) for k in range(full)) if self.verbose else ''
        got = self.stdout.getvalue()
        if not exp.startswith(got) or (flushed and got != exp):
            return ('stdout', exp, got)
        return None


def bfs(adapter_factory, data, depth):
    """explicit-state search from the initial device over OPS up to `depth` transitions."""
    ad = adapter_factory(data)
    if hasattr(ad, '_bind'):
        ad._bind()
    init = (ad.snapshot(), PackModel(bytes(data)), ())
    seen = {ad.key()}
    frontier = [init]
    states, transitions, bad = 1, 0, []
    outcomes = set()
    for d in range(depth):
        nxt = []
        for snap, model, hist in frontier:
            for op in OPS:
                ad.restore(snap)
                if hasattr(ad, '_bind'):
                    ad._bind()
                m2 = model.clone()
                exp = m2.step(op)
                got = apply_op(ad.dev, op)
                transitions += 1
                outcomes.add(got[0])
                extra = ad.extra_check(m2, flushed=op in ('get', 'get_inc') and got[0] == 'bytes')
                if got != exp or extra:
                    if len(bad) < 5:
                        bad.append({'device': ad.name, 'input': list(data), 'ops': list(hist) + [op],
                                    'expected': list(exp) if got != exp else extra[1], 'observed': list(got) if got != exp else extra[2],
                                    'what': 'op result' if got != exp else extra[0]})
                    continue
                k = ad.key()
                if k not in seen:
                    seen.add(k)
                    states += 1
                    nxt.append((ad.snapshot(hist + (op,)), m2, hist + (op,)))
        frontier = nxt
    return states, transitions, bad, outcomes


def straight_bits(adapter_factory, maxlen):
    """every bit string of length <= maxlen written to a fresh device (DFS sharing prefixes)."""
    ad = adapter_factory(b'')
    if hasattr(ad, '_bind'):
        ad._bind()
    n, bad = 0, []
    stack = [(ad.snapshot(), PackModel(b''), ())]
    while stack:
        snap, model, bits = stack.pop()
        for op in ('get', 'get_inc'):
            ad.restore(snap)
            if hasattr(ad, '_bind'):
                ad._bind()
            exp = model.clone().step(op)
            got = apply_op(ad.dev, op)
            n += 1
            if got != exp and len(bad) < 5:
                bad.append({'device': ad.name, 'input': [], 'ops': ['w%d' % b for b in bits] + [op], 'expected': list(exp), 'observed': list(got), 'what': 'op result'})
        if len(bits) < maxlen:
            for b in (0, 1):
                ad.restore(snap)
                if hasattr(ad, '_bind'):
                    ad._bind()
                m2 = model.clone()
                m2.step('w%d' % b)
                apply_op(ad.dev, 'w%d' % b)
                n += 1
                stack.append((ad.snapshot(tuple('w%d' % x for x in bits + (b,))), m2, bits + (b,)))
    return n, bad


TEXT_ALPHABET = (0x5C, ord('u'), ord('U'), ord('0'), ord('4'), ord('1'), ord('A'), 0x0A)


def straight_texts(adapter_factory, first, maxlen):
    """every byte string of length <= maxlen over an alphabet that can spell escape sequences (backslash, u, U, digits), starting
    with `first`, written bit by bit to a fresh device, then collected: no exception, exact bytes, exact echo."""
    n, bad = 0, []
    for L in range(0, maxlen):
        for rest in itertools.product(TEXT_ALPHABET, repeat=L):
            data = (first,) + rest
            ad = adapter_factory(b'')
            if hasattr(ad, '_bind'):
                ad._bind()
            model = PackModel(b'')
            ops = []
            problem = None
            for byte in data:
                for i in range(8):
                    op = 'w%d' % ((byte >> i) & 1)
                    ops.append(op)
                    exp, got = model.step(op), apply_op(ad.dev, op)
                    n += 1
                    if got != exp:
                        problem = ('op result', list(exp), list(got))
                        break
                if problem:
                    break
            if not problem:
                exp, got = model.step('get'), apply_op(ad.dev, 'get')
                ops.append('get')
                n += 1
                if got != exp:
                    problem = ('op result', list(exp), list(got))
                else:
                    extra = ad.extra_check(model, flushed=True)
                    if extra:
                        problem = extra
            if problem and len(bad) < 5:
                bad.append({'device': ad.name, 'input': [], 'ops': ops, 'expected': problem[1], 'observed': problem[2], 'what': problem[0], 'text': bytes(data).decode('latin1')})
    return n, bad


def straight_reads(adapter_factory, inputs):
    n, bad = 0, []
    for data in inputs:
        ad = adapter_factory(data)
        if hasattr(ad, '_bind'):
            ad._bind()
        model = PackModel(bytes(data))
        hist = []
        for _ in range(8 * len(data) + 3):
            exp = model.step('read')
            got = apply_op(ad.dev, 'read')
            hist.append('read')
            n += 1
            if got != exp:
                if len(bad) < 5:
                    bad.append({'device': ad.name, 'input': list(data), 'ops': list(hist), 'expected': list(exp), 'observed': list(got), 'what': 'op result'})
                break
    return n, bad


# ------------------------------------------------------------------ keyboard
def kb_model_stream(events, nreads):
    """events: list of (tic, is_down, keycode) in script order. -> the first nreads input bits."""
    order = sorted(range(len(events)), key=lambda i: (events[i][0], i))  # tic order, script order within a tic
    nxt, tic, bits = 0, 0, []
    polls = []
    while len(bits) < nreads:
        if nxt < len(order) and events[order[nxt]][0] <= tic:
            _, down, code = events[order[nxt]]
            nxt += 1
            status = 9 if down else 8
            bits += [(status >> i) & 1 for i in range(4)] + [(code >> i) & 1 for i in range(8)]
            polls.append((status, code))
        else:
            bits += [0, 0, 0, 0]
            polls.append((0, None))
        tic += 1
    return bits[:nreads], polls


def kb_run(events, nreads, via_text, write_every):
    from flipjump.interpreter.io_devices.KeyboardIO import KeyboardIO, ScriptedKeyEventSource, KeyEvent
    try:
        return _kb_run(events, nreads, via_text, write_every)
    except Exception as e:  # noqa  (every generated script is valid: building / polling the device must not fail)
        return [f'{type(e).__name__}: {str(e)[:120]}'], (('valid script',), ('device failed',))


def _kb_run(events, nreads, via_text, write_every):
    from flipjump.interpreter.io_devices.KeyboardIO import KeyboardIO, ScriptedKeyEventSource, KeyEvent
    if via_text == 'mixed':
        # every accepted spelling of the documented `tic, down/up, keycode` line: any letter case, 1 / 0, numbers in other bases, blanks, comments
        downs, ups = ('Down', 'DOWN', '1', 'dOwN', 'down'), ('Up', 'UP', '0', 'uP', 'up')
        text = '\n  # script\n\n' + ''.join(f'  {hex(t) if k % 2 else t} ,{(downs if d else ups)[k % 5]},  {hex(c) if k % 3 == 0 else c}  \n# between\n'
                                             for k, (t, d, c) in enumerate(events))
        src = ScriptedKeyEventSource.from_text(text)
    elif via_text:
        text = '# script\n' + ''.join(f'{t}, {"down" if d else "up"}, {c}\n' for t, d, c in events)
        src = ScriptedKeyEventSource.from_text(text)
    else:
        src = ScriptedKeyEventSource([KeyEvent(t, bool(d), c) for t, d, c in events])
    dev = KeyboardIO(src)
    got, wrote = [], []
    for i in range(nreads):
        r = apply_op(dev, 'read')
        if r[0] != 'bit':
            got.append(r[0])
            break
        got.append(r[1])
        if write_every and i % write_every == 0:
            b = (i // write_every) & 1
            wrote.append(b)
            apply_op(dev, 'w%d' % b)
    pm = PackModel(b'')
    for b in wrote:
        pm.step('w%d' % b)
    out_exp = pm.step('get_inc')
    out_got = apply_op(dev, 'get_inc')
    return got, (out_exp, out_got)


def kb_work(task):
    tier, first = task
    kinds = kb_kinds(tier)
    maxev = 3
    nreads = 40
    n, states, bad = 0, 0, []
    streams = set()
    scripts = 0
    for L in range(0, maxev + 1):
        if L == 0:
            if first != 0:
                continue
            combos = [()]
        else:
            combos = ((kinds[first],) + rest for rest in itertools.product(kinds, repeat=L - 1))
        for events in combos:
            events = list(events)
            scripts += 1
            exp, polls = kb_model_stream(events, nreads)
            for via_text, we in ((False, 0), (True, 3), ('mixed', 0)):
                got, (oe, og) = kb_run(events, nreads, via_text, we)
                n += nreads
                if got != exp or oe != og:
                    if len(bad) < 5:
                        bad.append({'device': 'KeyboardIO', 'events': events, 'via_text': via_text, 'reads': nreads,
                                    'expected': exp if got != exp else list(oe), 'observed': got if got != exp else list(og),
                                    'what': 'input bit stream' if got != exp else 'collected output'})
            streams.add(tuple(exp))
    return n, scripts, len(streams), bad


def kb_kinds(tier):
    tics = (0, 1, 2, 3)
    codes = (0, 1, 0x80, 0xFF)
    # both orders of (down, up) and of keycodes appear, so same-tic events come in every script order
    return [(t, d, c) for t in tics for d in (1, 0) for c in reversed(codes)]


# ------------------------------------------------------------------ tasks
LONG_LENGTHS = [n + d for n in (256, 1024, 4096, 8192, 12288, 16384, 65536) for d in (-1, 0, 1, 2)]


def long_input(length):
    return bytes((i * 37 + (i >> 8) * 101 + 11) & 0xFF for i in range(length))


def long_reads(adapter_factory, lengths, interleave_writes):
    """inputs far longer than any short-string family (boundary lengths around powers of two), read to the end and three reads beyond;
    optionally a written bit between the reads (input and output channels are independent)"""
    n, bad = 0, []
    for length in lengths:
        data = long_input(length)
        ad = adapter_factory(data)
        if hasattr(ad, '_bind'):
            ad._bind()
        model = PackModel(data)
        for k in range(8 * length + 3):
            ops = ('read', 'w1') if interleave_writes and k % 9 == 4 else ('read',)
            for op in ops:
                exp, got = model.step(op), apply_op(ad.dev, op)
                n += 1
                if got != exp:
                    break
            if got != exp:
                if len(bad) < 5:
                    bad.append({'device': ad.name, 'long_input_length': length, 'interleave_writes': interleave_writes, 'read_index': k,
                                'expected': list(exp), 'observed': list(got), 'what': f'read number {k} (bit {k % 8} of byte {k // 8}) of a {length}-byte input'})
                break
    return n, bad


def work(task):
    kind = task[0]
    sieve = Sieve(PROP)
    if kind == 'bfs':
        _, dev, data, depth = task
        fac = FixedAdapter if dev == 'fixed' else (lambda d: StandardAdapter(d, True)) if dev == 'std' else (lambda d: StandardAdapter(d, False))
        states, transitions, bad, outcomes = bfs(fac, data, depth)
        for b in bad:
            sieve.add(record(b))
        return {'states': states, 'transitions': transitions, 'outcomes': sorted(outcomes)}, sieve.result()
    if kind == 'bits':
        _, dev, maxlen = task
        fac = FixedAdapter if dev == 'fixed' else KeyboardOutAdapter if dev == 'kbd' else (lambda d: StandardAdapter(d, True))
        n, bad = straight_bits(fac, maxlen)
        for b in bad:
            sieve.add(record(b))
        return {'states': 0, 'transitions': n, 'bit_strings': (1 << (maxlen + 1)) - 1}, sieve.result()
    if kind == 'texts':
        _, dev, first, maxlen = task
        fac = FixedAdapter if dev == 'fixed' else (lambda d: StandardAdapter(d, True))
        n, bad = straight_texts(fac, first, maxlen)
        for b in bad:
            sieve.add(record(b))
        return {'states': 0, 'transitions': n, 'texts': sum(len(TEXT_ALPHABET) ** k for k in range(maxlen))}, sieve.result()
    if kind == 'reads':
        _, dev, first = task
        fac = FixedAdapter if dev == 'fixed' else (lambda d: StandardAdapter(d, True))
        inputs = [()] + [(first,)] + [(first, b) for b in range(256)] if first is not None else [()]
        n, bad = straight_reads(fac, inputs)
        for b in bad:
            sieve.add(record(b))
        return {'states': 0, 'transitions': n, 'inputs': len(inputs)}, sieve.result()
    if kind == 'longreads':
        _, dev, lengths, inter = task
        fac = FixedAdapter if dev == 'fixed' else (lambda d: StandardAdapter(d, True))
        n, bad = long_reads(fac, lengths, inter)
        for b in bad:
            sieve.add(record(b))
        return {'states': 0, 'transitions': n, 'long_inputs': len(lengths)}, sieve.result()
    if kind == 'kb':
        n, scripts, streams, bad = kb_work(task[1:])
        for b in bad:
            sieve.add(record(b))
        return {'states': 0, 'transitions': n, 'kb_scripts': scripts, 'kb_distinct_streams': streams}, sieve.result()
    if kind == 'kb4':
        kinds = [(t, d, c) for t in (0, 1, 3) for d in (1, 0) for c in (0x80, 1)]
        n, scripts, bad = 0, 0, []
        for rest in itertools.product(kinds, repeat=3):
            events = [kinds[task[1]]] + list(rest)
            scripts += 1
            exp, _ = kb_model_stream(events, 56)
            got, (oe, og) = kb_run(events, 56, False, 0)
            n += 56
            if got != exp and len(bad) < 5:
                bad.append({'device': 'KeyboardIO', 'events': events, 'via_text': False, 'reads': 56, 'expected': exp, 'observed': got, 'what': 'input bit stream'})
        for b in bad:
            sieve.add(record(b))
        return {'states': 0, 'transitions': n, 'kb_scripts': scripts}, sieve.result()
    if kind == 'broken':
        from flipjump.interpreter.io_devices.BrokenIO import BrokenIO
        from flipjump.utils.exceptions import BrokenIOUsed, IODeviceException
        n = 0
        for seq in itertools.product(('read', 'w0', 'w1', 'get', 'get_inc'), repeat=3):
            dev = BrokenIO()
            for op in seq:
                n += 1
                try:
                    if op == 'read':
                        dev.read_bit()
                    elif op in ('w0', 'w1'):
                        dev.write_bit(op == 'w1')
                    elif op == 'get':
                        dev.get_output()
                    else:
                        dev.get_output(allow_incomplete_output=True)
                    sieve.add(record({'device': 'BrokenIO', 'ops': list(seq), 'expected': 'BrokenIOUsed', 'observed': 'returned', 'what': 'op result'}))
                except BrokenIOUsed as e:
                    if not isinstance(e, IODeviceException):
                        sieve.add(record({'device': 'BrokenIO', 'ops': list(seq), 'expected': 'IODeviceException subclass', 'observed': type(e).__name__, 'what': 'type'}))
                except Exception as e:  # noqa
                    sieve.add(record({'device': 'BrokenIO', 'ops': list(seq), 'expected': 'BrokenIOUsed', 'observed': type(e).__name__, 'what': 'op result'}))
        return {'states': 1, 'transitions': n}, sieve.result()
    raise ValueError(kind)


def record(b):
    return {'kind': 'device-vs-packing-model', 'case': {k: v for k, v in b.items() if k not in ('expected', 'observed')},
            'expected': b['expected'], 'observed': b['observed'],
            'summary': f"{b['device']}: {b['what']} differs from the packing/protocol model"}


def make_tasks(tier):
    alpha = (0x00, 0x01, 0x80, 0xFF, 0x5C, 0x41, 0x0A, 0x7F, 0xAA, 0x55)
    inputs = [()] + [(a,) for a in alpha] + [(a, b) for a in alpha for b in alpha]
    depth = 10 if tier != 'thorough' else 12
    tasks = []
    for data in inputs:
        tasks.append(('bfs', 'fixed', data, depth))
    for data in inputs[:1 + len(alpha)] + inputs[1 + len(alpha)::5]:
        tasks.append(('bfs', 'std', data, depth - 2))
    tasks.append(('bfs', 'quiet', (0x41,), 5))
    tasks.append(('bits', 'fixed', 16))
    tasks.append(('bits', 'std', 12))
    tasks.append(('bits', 'kbd', 12))
    for first in TEXT_ALPHABET:
        tasks.append(('texts', 'std', first, 6 if tier != 'thorough' else 7))
    tasks.append(('texts', 'fixed', 0x5C, 6))
    tasks.append(('reads', 'fixed', None))
    for first in range(256):
        tasks.append(('reads', 'fixed', first))
    for first in range(0, 256):
        tasks.append(('reads', 'std', first))
    for dev in ('fixed', 'std'):
        for inter in (False, True):
            for i in range(0, len(LONG_LENGTHS), 4):
                tasks.append(('longreads', dev, LONG_LENGTHS[i:i + 4], inter))
    for first in range(len(kb_kinds(tier))):
        tasks.append(('kb', tier, first))
    if tier == 'thorough':
        for first in range(12):
            tasks.append(('kb4', first))
    tasks.append(('broken',))
    return tasks


def replay(args):
    rec = load_replay(args.replay)
    c = rec['case']
    if c['device'] == 'KeyboardIO':
        exp, _ = kb_model_stream([tuple(e) for e in c['events']], c['reads'])
        got, (oe, og) = kb_run([tuple(e) for e in c['events']], c['reads'], c['via_text'], 3 if c['via_text'] else 0)
        print('expected', exp, '\nobserved', got, oe, og)
        bad = got != exp or oe != og
    elif c['device'] == 'BrokenIO':
        stats, res = work(('broken',))
        bad = bool(res[0])
    elif 'long_input_length' in c:
        fac = FixedAdapter if c['device'] == 'FixedIO' else (lambda d: StandardAdapter(d, True))
        n, found = long_reads(fac, [c['long_input_length']], c['interleave_writes'])
        print(found)
        bad = bool(found)
    else:
        fac = FixedAdapter if c['device'] == 'FixedIO' else (lambda d: StandardAdapter(d, True))
        ad = fac(bytes(c['input']))
        if hasattr(ad, '_bind'):
            ad._bind()
        model = PackModel(bytes(c['input']))
        bad = False
        for op in c['ops']:
            exp, got = model.step(op), apply_op(ad.dev, op)
            print(op, 'expected', exp, 'observed', got)
            bad = bad or exp != got or bool(ad.extra_check(model, flushed=op in ('get', 'get_inc') and got[0] == 'bytes'))
    if bad:
        print(f'VIOLATION property={PROP} replay={args.replay}')
        return 1
    print('replay: device agrees with the model')
    return 0


def main():
    args = parse_args(PROP)
    bind('plain')
    if args.replay:
        return replay(args)
    run = Run(PROP, 'model_checking', args)
    total = {}
    outcomes = set()
    for stats, res in pmap(work, make_tasks(args.tier), args.jobs):
        for k, v in stats.items():
            if k == 'outcomes':
                outcomes.update(v)
            else:
                total[k] = total.get(k, 0) + v
        run.merge(res)
    need = {'bit', 'EOF', 'ok', 'bytes', 'Incomplete'}
    missing = sorted(need - outcomes)
    if missing:
        print(f'CHECK-INTERNAL-ERROR vacuous exploration, outcome classes never seen: {missing}', file=sys.stderr)
    cov = {
        'states': total.get('states', 0),
        'transitions': total.get('transitions', 0),
        'traces_validated_against_impl': total.get('transitions', 0),
        'samples': [
            {'device': 'FixedIO', 'input': [0x41], 'ops': ['read', 'w1', 'get', 'w0', 'get_inc', 'read']},
            {'device': 'KeyboardIO', 'events': [[1, 1, 0x80], [1, 0, 0x80]], 'model_polls': kb_model_stream([(1, 1, 0x80), (1, 0, 0x80)], 30)[1]},
        ],
        'bit_strings_written': total.get('bit_strings', 0),
        'texts_written': total.get('texts', 0),
        'inputs_read_to_eof': total.get('inputs', 0),
        'keyboard_scripts': total.get('kb_scripts', 0),
        'keyboard_distinct_streams': total.get('kb_distinct_streams', 0),
        'outcome_classes': sorted(outcomes),
        'bounds': {'bfs_depth': 10 if args.tier != 'thorough' else 12, 'bit_strings_up_to': 16, 'texts': 'all byte strings of length <= 6 (7 thorough) over backslash, u, U, 0, 4, 1, A, newline written to StandardIO (exact bytes, exact echo, no exception)', 'inputs': 'all byte strings of length <= 2 (FixedIO and StandardIO)',
                   'keyboard': 'all scripts of <= 3 events over ' + str(len(kb_kinds(args.tier))) + ' event kinds, 40 reads (thorough adds all 4-event scripts over 12 kinds)'},
        'exhaustive': not missing,
    }
    code = run.finish(cov, assumptions=[
        'a device state is its attribute dictionary (plus the position of the replaced stdin/stdout for StandardIO); equal dictionaries have equal futures',
        'same-tic keyboard events are delivered in script order (stable tic order)',
        'input characters are the code points 0..255 (one byte each under the io encoding)'])
    return 2 if missing and not code else code


if __name__ == '__main__':
    main_guard(main)
