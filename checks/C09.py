"""C09 - library input / print / cast macros are exact inverses of the byte encoding.

Bounded-exhaustive on the stl block harness (real stl, real assembler, working-tree native engine,
IO through plain callables):
 * print / output blocks: every value of the variable (hex n<=2 / bit n<=8 exhaustively; the
   decimal and hexadecimal number printers additionally for all 65 536 16-bit values) x documented
   options (prefix, letter case) -> output bytes must equal Python formatting; the variable and the
   rest of the image stay unchanged;
 * input blocks: every byte string of length <= 3 (thorough 4) over a 16-byte alphabet, fed through
   a scripted bit source, followed by terminators: parsed value (mod 16^n), stop byte / error exit
   and the EXACT number of input bits consumed; truncated inputs end by end-of-input;
 * casts bit<->hex and value<->ascii: exhaustive, incl. a dirty destination;
 * buffer helpers (input_ptr_line / print_ptr_text / print_ptr_line / fill_bytes / copy_bytes):
   all strings of length <= 3 over {'a','\\n','\\0',0xff} plus lines of 14..48 chars, counts 0..3 and 15..17, 31..33, 48 (50-byte buffers).
"""
import itertools
import sys

from fjv.runner import Run, Sieve, parse_args, pmap, load_replay, main_guard

PROP = 'C09'
ALPHA = [0x30, 0x31, 0x39, 0x61, 0x66, 0x41, 0x46, 0x67, 0x2D, 0x2B, 0x20, 0x0A, 0x00, 0x2F, 0x3A, 0xFF]


def bits_of(data):
    return [(b >> i) & 1 for b in data for i in range(8)]


def bytes_of(bits):
    n = len(bits) // 8
    return bytes(sum(bits[8 * k + i] << i for i in range(8)) for k in range(n)), len(bits) % 8


def sgn(x, bits):
    x &= (1 << bits) - 1
    return x - (1 << bits) if x >> (bits - 1) else x


# ------------------------------------------------------------------ print family
def print_blocks(nh, nb):
    """(name, call, var, bits, fn(value)->expected output bits)"""
    hb, bb = 4 * nh, nb
    B = []
    fmt_x = lambda v, up: format(v, 'X' if up else 'x')  # noqa
    B.append(('h_output', 'hex.output x', 'x', 4, lambda v: [(v >> i) & 1 for i in range(4)]))
    B.append(('h_print', 'hex.print y', 'y', 8, lambda v: bits_of(bytes([v]))))
    B.append(('h_print2', 'hex.print 2, y4', 'y4', 16, lambda v: bits_of(v.to_bytes(2, 'little'))))
    for up in (0, 1):
        B.append((f'h_pad{up}', f'hex.print_as_digit x, {up}', 'x', 4, lambda v, up=up: bits_of(fmt_x(v, up).encode())))
        B.append((f'h_padn{up}', f'hex.print_as_digit {nh}, hv, {up}', 'hv', hb, lambda v, up=up: bits_of(fmt_x(v, up).rjust(nh, '0').encode())))
        for pre in (0, 1):
            B.append((f'h_uint{pre}{up}', f'hex.print_uint {nh}, hv, {pre}, {up}', 'hv', hb,
                      lambda v, up=up, pre=pre: bits_of((('0x' if pre else '') + fmt_x(v, up)).encode())))
            B.append((f'h_int{pre}{up}', f'hex.print_int {nh}, hv, {pre}, {up}', 'hv', hb,
                      lambda v, up=up, pre=pre: bits_of((('-' if sgn(v, hb) < 0 else '') + ('0x' if pre else '') + fmt_x(abs(sgn(v, hb)), up)).encode())))
    B.append(('h_dec_uint', f'hex.print_dec_uint {nh}, hv', 'hv', hb, lambda v: bits_of(str(v).encode())))
    B.append(('h_dec_int', f'hex.print_dec_int {nh}, hv', 'hv', hb, lambda v: bits_of(str(sgn(v, hb)).encode())))
    B.append(('b_output', 'bit.output b', 'b', 1, lambda v: [v]))
    B.append(('b_print', 'bit.print b8', 'b8', 8, lambda v: bits_of(bytes([v]))))
    B.append(('b_print2', 'bit.print 2, bv', 'bv', 16, lambda v: bits_of(v.to_bytes(2, 'little'))))

    def pstr(v):
        out = []
        for ch in v.to_bytes(2, 'little'):
            if ch == 0:
                break
            out.append(ch)
        return bits_of(bytes(out))
    B.append(('b_print_str', 'bit.print_str 2, bv', 'bv', 16, pstr))
    B.append(('b_pad', 'bit.print_as_digit b', 'b', 1, lambda v: bits_of(b'1' if v else b'0')))
    B.append(('b_padn', 'bit.print_as_digit 8, b8', 'b8', 8, lambda v: bits_of(format(v, '08b').encode())))  # msb first (documented so since fix 404daf0)
    for pre in (0, 1):
        B.append((f'b_hex_uint{pre}', f'bit.print_hex_uint {nb}, bv, {pre}', 'bv', bb, lambda v, pre=pre: bits_of((('0x' if pre else '') + format(v, 'X')).encode())))
        B.append((f'b_hex_int{pre}', f'bit.print_hex_int {nb}, bv, {pre}', 'bv', bb,
                  lambda v, pre=pre: bits_of((('-' if sgn(v, bb) < 0 else '') + ('0x' if pre else '') + format(abs(sgn(v, bb)), 'X')).encode())))
    B.append(('b_dec_uint', f'bit.print_dec_uint {nb}, bv', 'bv', bb, lambda v: bits_of(str(v).encode())))
    B.append(('b_dec_int', f'bit.print_dec_int {nb}, bv', 'bv', bb, lambda v: bits_of(str(sgn(v, bb)).encode())))
    B.append(('b_dec_uint5', 'bit.print_dec_uint 5, b8', 'b8', 5, lambda v: bits_of(str(v & 31).encode())))
    B.append(('b_dec_uint3', 'bit.print_dec_uint 3, b8', 'b8', 3, lambda v: bits_of(str(v & 7).encode())))
    B.append(('const_char', "stl.output_char 'Q'", None, 0, lambda v: bits_of(b'Q')))
    B.append(('const_str', 'stl.output "Hi!\\n"', None, 0, lambda v: bits_of(b'Hi!\n')))
    # constants whose LAST byte has its top bit set (the bit length of the constant is a multiple of 8), a high byte that is not last,
    # multi-byte utf-8, single chars >= 0x80
    B.append(('const_str_high_last', 'stl.output "A\\xff"', None, 0, lambda v: bits_of(b'A\xff')))
    B.append(('const_str_0x80', 'stl.output "\\x80"', None, 0, lambda v: bits_of(b'\x80')))
    B.append(('const_str_high_first', 'stl.output "\\xff\\x7f"', None, 0, lambda v: bits_of(b'\xff\x7f')))
    B.append(('const_str_utf8', 'stl.output "caf\\xc3\\xa9"', None, 0, lambda v: bits_of(b'caf\xc3\xa9')))
    B.append(('const_char_high', "stl.output_char '\\xe9'", None, 0, lambda v: bits_of(b'\xe9')))
    B.append(('const_str_8', 'stl.output "12345678"', None, 0, lambda v: bits_of(b'12345678')))
    B.append(('const_bit1', 'stl.output_bit 7', None, 0, lambda v: [1]))
    B.append(('const_bit0', 'stl.output_bit 0', None, 0, lambda v: [0]))
    return B


VARS_PRINT = [('x', 1, 4), ('y', 2, 4), ('y4', 4, 4), ('hv', 4, 4), ('b', 1, 1), ('b8', 8, 1), ('bv', 16, 1)]


def work_print(task):
    from fjv.enginecheck import scratch
    from fjv.stlharness import Harness, BlockSpec
    _, tier, w, part, nparts = task
    blocks = print_blocks(4, 16)[part::nparts]
    specs = [BlockSpec(n, c, ['ft'], None, ()) for n, c, _, _, _ in blocks]
    h = Harness(w, 'hex', 1, VARS_PRINT, specs, scratch(), tag=f'c09-print-{w}-{part}')
    sieve = Sieve(PROP, MATCHERS)
    stats = {'transitions': 0, 'blocks': len(blocks), 'distinct': 0}
    base = {'x': 0x9, 'y': 0xA7, 'y4': 0x1234, 'hv': 0xBEEF, 'b': 1, 'b8': 0x5C, 'bv': 0xC3A5}
    for name, call, var, nbits, fn in blocks:
        if var is None:
            values = [0]
        elif nbits <= 8 or tier == 'thorough' or 'dec' in name or 'uint' in name or 'int' in name:
            values = range(1 << nbits)
        else:
            values = sorted(set(list(range(0, 1 << nbits, 257)) + [0, 1, (1 << nbits) - 1, 1 << (nbits - 1)]))
        if nbits == 16 and tier != 'thorough' and not ('dec' in name):
            values = sorted(set(list(range(0, 1 << 16, 37)) + [0, 1, 9, 10, 15, 16, 255, 256, 4095, 4096, 32767, 32768, 65535, 65534]))
        outs = set()
        for v in values:
            vals = dict(base)
            if var is not None:
                vals[var] = (vals[var] & ~((1 << nbits) - 1)) | v
            exp_bits = fn(v)
            r = h.step(name, vals, timeout=20.0)
            stats['transitions'] += 1
            problems = []
            if r['cause'] != 0 or r['exit'] != 'ft':
                problems.append(('termination', 'falls through', {'cause': r['cause'], 'exit': r.get('exit')}))
            else:
                if r['out'] != exp_bits:
                    eb, gb = bytes_of(exp_bits), bytes_of(r['out'])
                    problems.append(('output', [eb[0].decode('latin1'), eb[1]], [gb[0].decode('latin1'), gb[1]]))
                if r['vals'] != vals:
                    problems.append(('variables changed', {k: hex(x) for k, x in vals.items() if r['vals'][k] != x}, {k: hex(x) for k, x in r['vals'].items() if vals[k] != x}))
                fd = h.frame_diffs(name, r['snap'], r['vals'])
                if fd:
                    problems.append(('frame', 'unchanged', [{'word': d[0], 'was': d[1], 'now': d[2], 'at': d[3]} for d in fd[:4]]))
                outs.add(tuple(r['out']))
            if problems:
                sieve.add({'kind': 'print macro output differs from the value', 'class': f'print {name} {problems[0][0]}',
                           'case': {'family': 'print', 'w': w, 'block': name, 'call': call, 'value': v},
                           'expected': {p[0]: p[1] for p in problems}, 'observed': {p[0]: p[2] for p in problems},
                           'summary': f'w={w} {call} value={v:#x}: {[p[0] for p in problems]} {problems[0][1]} vs {problems[0][2]}'})
                h.restore_all()
        stats['distinct'] += len(outs)
    return stats, sieve.result(), {'w': w, 'print_blocks': [b[0] for b in blocks]}


# ------------------------------------------------------------------ input family
def parse_dec_until(data, signed, n):
    """-> (value mod 16^n, stop byte, bytes consumed) or None if the input runs out"""
    m = (1 << (4 * n)) - 1
    i, neg, val = 0, False, 0
    if signed and i < len(data) and data[i] == 0x2D:
        neg = True
        i += 1
    while True:
        if i >= len(data):
            return None
        c = data[i]
        i += 1
        if 0x30 <= c <= 0x39:
            val = (val * 10 + (c - 0x30)) & m
        else:
            return ((-val) & m if neg else val, c, i)


def input_blocks(n):
    """(name, call, exits, model(data bytes, vals) -> (updates, exit, bits consumed) | None when the input runs out)"""
    B = []

    def m_input_hex(data, v):
        return ({'x': data[0] & 0xF}, 'ft', 4) if len(data) >= 1 else None
    B.append(('in_hex', 'hex.input_hex x', ['ft'], m_input_hex))
    B.append(('in_byte', 'hex.input y', ['ft'], lambda d, v: ({'y': d[0]}, 'ft', 8) if len(d) >= 1 else None))
    B.append(('in_bytes2', 'hex.input 2, y4', ['ft'], lambda d, v: ({'y4': d[0] | (d[1] << 8)}, 'ft', 16) if len(d) >= 2 else None))

    def hexval(c):
        ch = chr(c)
        if ch in '0123456789abcdefABCDEF':
            return int(ch, 16)
        return None

    def m_as_hex(d, v):
        if len(d) < 1:
            return None
        hv = hexval(d[0])
        if hv is None:
            return ({'x': None}, 'err', 8)
        return ({'x': hv}, 'ft', 8)
    B.append(('in_as_hex', 'hex.input_as_hex x, {x[err]}', ['ft', 'err'], m_as_hex))

    def m_as_hex2(d, v):
        # hex[:n] = hex_from_ascii(input(n-bytes)) - which end first? the first byte read is the MOST significant digit
        val = 0
        for i in range(2):
            if len(d) <= i:
                return None
            hv = hexval(d[i])
            if hv is None:
                return ({'y': None}, 'err', 8 * (i + 1))
            val = (val << 4) | hv
        return ({'y': val}, 'ft', 16)
    B.append(('in_as_hex2', 'hex.input_as_hex 2, y, {x[err]}', ['ft', 'err'], m_as_hex2))

    def m_until(signed):
        def f(d, v):
            p = parse_dec_until(d, signed, n)
            if p is None:
                return None
            val, stop, used = p
            return ({'hv': val, 'y': stop}, 'ft', 8 * used)
        return f
    B.append(('in_dec_uint_until', f'hex.input_dec_uint_until {n}, hv, y', ['ft'], m_until(False)))
    B.append(('in_dec_int_until', f'hex.input_dec_int_until {n}, hv, y', ['ft'], m_until(True)))

    def m_line(signed):
        def f(d, v):
            p = parse_dec_until(d, signed, n)
            if p is None:
                return None
            val, stop, used = p
            if stop in (0x0A, 0x00):
                return ({'hv': val}, 'ft', 8 * used)
            return ({'hv': None}, 'err', 8 * used)
        return f
    B.append(('in_dec_uint', f'hex.input_dec_uint {n}, hv, {{x[err]}}', ['ft', 'err'], m_line(False)))
    B.append(('in_dec_int', f'hex.input_dec_int {n}, hv, {{x[err]}}', ['ft', 'err'], m_line(True)))
    B.append(('in_bit', 'bit.input_bit b', ['ft'], lambda d, v: ({'b': d[0] & 1}, 'ft', 1) if len(d) >= 1 else None))
    B.append(('in_bbyte', 'bit.input b8', ['ft'], lambda d, v: ({'b8': d[0]}, 'ft', 8) if len(d) >= 1 else None))
    B.append(('in_bbytes2', 'bit.input 2, bv', ['ft'], lambda d, v: ({'bv': d[0] | (d[1] << 8)}, 'ft', 16) if len(d) >= 2 else None))
    return B


def work_input(task):
    from fjv.enginecheck import scratch
    from fjv.stlharness import Harness, BlockSpec
    _, tier, w, part, nparts = task
    n = 4
    blocks = input_blocks(n)[part::nparts]
    specs = [BlockSpec(nm, c, ex, None, ()) for nm, c, ex, _ in blocks]
    h = Harness(w, 'hex', 1, VARS_PRINT, specs, scratch(), tag=f'c09-input-{w}-{part}')
    sieve = Sieve(PROP, MATCHERS)
    stats = {'transitions': 0, 'blocks': len(blocks), 'distinct': 0}
    base = {'x': 0x9, 'y': 0xA7, 'y4': 0x1234, 'hv': 0xBEEF, 'b': 1, 'b8': 0x5C, 'bv': 0xC3A5}
    maxlen = 4 if tier == 'thorough' else 3
    strings = [bytes(s) for L in range(0, maxlen + 1) for s in itertools.product(ALPHA, repeat=L)]
    if tier != 'thorough':
        pass
    for name, call, exits, model in blocks:
        outcomes = set()
        simple = name in ('in_hex', 'in_byte', 'in_bit', 'in_bbyte')
        for s in strings:
            if simple and len(s) > 1:
                continue
            if name in ('in_bytes2', 'in_bbytes2', 'in_as_hex2', 'in_as_hex') and len(s) > 2:
                continue
            # the string, then enough terminators for the macro to finish; plus the truncated variant (EOF)
            for tail in (b'\n\n\n', b''):
                data = s + tail
                vals = dict(base)
                m = model(data, vals)
                bits = bits_of(data)
                r = h.step(name, vals, io_in=bits, timeout=10.0)
                stats['transitions'] += 1
                problems = []
                if m is None:
                    if r['cause'] != 1:  # TERM_EOF
                        problems.append(('end of input', 'the run ends by end-of-input', {'cause': r['cause'], 'exit': r.get('exit')}))
                    h.restore_all()
                else:
                    upd, exit_, used = m
                    exp = dict(vals)
                    for k, x in upd.items():
                        if x is not None:
                            exp[k] = x
                    if r['cause'] != 0 or r['exit'] != exit_:
                        problems.append(('branch', exit_, {'cause': r['cause'], 'exit': r.get('exit')}))
                    else:
                        got = dict(r['vals'])
                        for k, x in upd.items():
                            if x is None:
                                exp[k] = got[k]  # documented as unspecified on the error branch
                        if got != exp:
                            problems.append(('stored value', {k: hex(x) for k, x in exp.items() if got[k] != x}, {k: hex(x) for k, x in got.items() if exp[k] != x}))
                        consumed = len(bits) - r['in_left']
                        if consumed != used:
                            problems.append(('input bits consumed', used, consumed))
                        fd = h.frame_diffs(name, r['snap'], got)
                        if fd:
                            problems.append(('frame', 'unchanged', [{'word': d[0], 'was': d[1], 'now': d[2], 'at': d[3]} for d in fd[:4]]))
                        outcomes.add((exit_, tuple(sorted((k, x) for k, x in upd.items() if x is not None))))
                if problems:
                    sieve.add({'kind': 'input macro differs from what the stream spells', 'class': f'input {name} {problems[0][0]}',
                               'case': {'family': 'input', 'w': w, 'block': name, 'call': call, 'input': list(data)},
                               'expected': {p[0]: p[1] for p in problems}, 'observed': {p[0]: p[2] for p in problems},
                               'summary': f'w={w} {call} input={data!r}: {[p[0] for p in problems]} {problems[0][1]} vs {problems[0][2]}'})
                    h.restore_all()
        stats['distinct'] += len(outcomes)
    return stats, sieve.result(), {'w': w, 'input_blocks': [b[0] for b in blocks], 'strings': len(strings)}


# ------------------------------------------------------------------ casts
def work_casts(task):
    from fjv.enginecheck import scratch
    from fjv.stlharness import Harness, BlockSpec
    _, tier, w = task
    V = [('x', 1, 4), ('hv', 4, 4), ('b', 1, 1), ('b4', 4, 1), ('b8', 8, 1), ('bv', 16, 1), ('e', 1, 1), ('h2', 2, 4)]
    asc = lambda c: ord(c)  # noqa

    def a2(kind):
        def f(v):
            c = v['b8']
            ch = chr(c)
            ok = {'bin': '01', 'dec': '0123456789', 'hex': '0123456789abcdefABCDEF'}[kind]
            if ch in ok:
                tgt = 'b' if kind == 'bin' else 'b4'
                return {'e': 0, tgt: int(ch, 16)}
            return {'e': 1, ('b' if kind == 'bin' else 'b4'): None}
        return f
    B = [
        ('bit2hex1', 'stl.bit2hex x, b', ('b', 'x'), lambda v: {'x': v['b']}),
        ('bit2hex5', 'stl.bit2hex 5, h2, b8', ('b8', 'h2'), lambda v: {'h2': v['b8'] & 31}),
        ('bit2hex8', 'stl.bit2hex 8, h2, b8', ('b8', 'h2'), lambda v: {'h2': v['b8']}),
        ('bit2hex3', 'stl.bit2hex 3, x, b4', ('b4', 'x'), lambda v: {'x': v['b4'] & 7}),
        ('bit2hex16', 'stl.bit2hex 16, hv, bv', ('bv',), lambda v: {'hv': v['bv']}),
        ('hex2bit1', 'stl.hex2bit b4, x', ('x', 'b4'), lambda v: {'b4': v['x']}),
        ('hex2bit2', 'stl.hex2bit 2, b8, h2', ('h2', 'b8'), lambda v: {'b8': v['h2']}),
        ('hex2bit4', 'stl.hex2bit 4, bv, hv', ('hv',), lambda v: {'bv': v['hv']}),
        ('bin2ascii', 'bit.bin2ascii b8, b', ('b', 'b8'), lambda v: {'b8': 0x30 + v['b']}),
        ('dec2ascii', 'bit.dec2ascii b8, b4', ('b4',), lambda v: {'b8': 0x30 + v['b4']} if v['b4'] < 10 else None),
        ('hex2ascii', 'bit.hex2ascii b8, b4', ('b4',), lambda v: {'b8': ord('0123456789ABCDEF'[v['b4']])}),
        ('ascii2bin', 'bit.ascii2bin e, b, b8', ('b8', 'b'), a2('bin')),
        ('ascii2dec', 'bit.ascii2dec e, b4, b8', ('b8',), a2('dec')),
        ('ascii2hex', 'bit.ascii2hex e, b4, b8', ('b8',), a2('hex')),
    ]
    specs = [BlockSpec(n, c, ['ft'], None, ()) for n, c, _, _ in B]
    h = Harness(w, 'hex', 1, V, specs, scratch(), tag=f'c09-casts-{w}')
    sieve = Sieve(PROP, MATCHERS)
    stats = {'transitions': 0, 'blocks': len(B), 'distinct': 0}
    width = {v[0]: v[1] * v[2] for v in V}
    base = {'x': 0x9, 'hv': 0xBEEF, 'b': 1, 'b4': 0xA, 'b8': 0x5C, 'bv': 0xC3A5, 'e': 1, 'h2': 0xE7}
    for name, call, operands, model in B:
        doms = []
        for o in operands:
            n = width[o]
            doms.append(range(1 << n) if n <= 8 or tier == 'thorough' else sorted(set(list(range(0, 1 << n, 97)) + [0, 1, (1 << n) - 1, 1 << (n - 1)])))
        outs = set()
        for tup in itertools.product(*doms):
            vals = dict(base)
            vals.update(zip(operands, tup))
            upd = model(vals)
            if upd is None:
                continue
            r = h.step(name, vals)
            stats['transitions'] += 1
            problems = []
            if r['cause'] != 0 or r['exit'] != 'ft':
                problems.append(('termination', 'falls through', {'cause': r['cause'], 'exit': r.get('exit')}))
            else:
                exp = dict(vals)
                for k, x in upd.items():
                    exp[k] = r['vals'][k] if x is None else x
                if r['vals'] != exp:
                    problems.append(('cast value', {k: hex(x) for k, x in exp.items() if r['vals'][k] != x}, {k: hex(x) for k, x in r['vals'].items() if exp[k] != x}))
                fd = h.frame_diffs(name, r['snap'], r['vals'])
                if fd:
                    problems.append(('frame', 'unchanged', [{'word': d[0], 'was': d[1], 'now': d[2], 'at': d[3]} for d in fd[:4]]))
                outs.add(tuple(sorted(upd.items(), key=str)))
            if problems:
                sieve.add({'kind': 'cast does not preserve the value', 'class': f'cast {name} {problems[0][0]}',
                           'case': {'family': 'casts', 'w': w, 'block': name, 'call': call, 'vals': vals},
                           'expected': {p[0]: p[1] for p in problems}, 'observed': {p[0]: p[2] for p in problems},
                           'summary': f'w={w} {call} {dict(zip(operands, tup))}: {[p[0] for p in problems]} {problems[0][1]} vs {problems[0][2]}'})
                h.restore_all()
        stats['distinct'] += len(outs)
    return stats, sieve.result(), {'w': w, 'casts': [b[0] for b in B]}


# ------------------------------------------------------------------ buffer helpers (hex/strings.fj)
def work_strings(task):
    from fjv.enginecheck import scratch
    from fjv.stlharness import Harness, BlockSpec
    _, tier, w = task
    KB = 50
    V = [('p', w // 4, 4), ('q', w // 4, 4), ('len', w // 4, 4), ('cnt', w // 4, 4), ('val', 2, 4), ('bufa', KB + 2, 8), ('bufb', KB + 2, 8)]
    B = [('input_ptr_line', 'hex.input_ptr_line p, len'), ('print_ptr_text', 'hex.print_ptr_text p, cnt'),
         ('print_ptr_line', 'hex.print_ptr_line p, len'), ('fill_bytes', 'hex.fill_bytes p, cnt, val'), ('copy_bytes', 'hex.copy_bytes q, p, cnt')]
    specs = [BlockSpec(n, c, ['ft'], None, ()) for n, c in B]
    h = Harness(w, 'hex', 1, V, specs, scratch(), tag=f'c09-str-{w}')
    from checks.C08 import shared_words
    shared = shared_words(h, w, with_stack=False)
    sieve = Sieve(PROP, MATCHERS)
    stats = {'transitions': 0, 'blocks': len(B), 'distinct': 0}
    dw = 2 * w
    pa = h.labels['bufa'] + dw  # cell 1 (cell 0 is a guard)
    pb = h.labels['bufb'] + dw
    chars = [0x61, 0x0A, 0x00, 0xFF, 0x09, 0x0B]  # also the bytes right below / above the newline (TAB, VT)
    strings = [bytes(s) for L in range(0, 4) for s in itertools.product(chars, repeat=L)]
    strings += [b'a' * k + t for k in (14, 15, 16, 17, 31, 32, 33, 48) for t in (b'', b'\n', b'\x00b')]  # lengths around the hex-digit carries of the counters
    counts = (0, 1, 2, 3, 15, 16, 17, 31, 32, 33, 48)
    pack = lambda cells: sum(c << (8 * i) for i, c in enumerate(cells))  # noqa
    guard = 0x5E
    for name, call in B:
        outs = set()
        for s in strings:
            for cnt in (counts if name in ('print_ptr_text', 'fill_bytes', 'copy_bytes') else (0,)):
                cells_a = [guard] + [0x11 * (k + 1) & 0xFF for k in range(KB)] + [guard]
                cells_b = [guard] + [0xC0 + k for k in range(KB)] + [guard]
                vals = {'p': pa, 'q': pb, 'len': 0x77, 'cnt': cnt, 'val': 0xE9, 'bufa': 0, 'bufb': 0}
                io_in, exp_out = [], []
                exp_a, exp_b, exp = list(cells_a), list(cells_b), None
                if name == 'input_ptr_line':
                    data = s + b'\n'
                    io_in = bits_of(data)
                    line = data[:data.index(b'\n')] if b'\n' in data else data
                    if 0 in line:
                        line = line[:line.index(0)]
                    used = len(line) + 1
                    for i, c in enumerate(line):
                        exp_a[1 + i] = c
                    exp = dict(vals, len=len(line))
                    consumed = 8 * used
                elif name in ('print_ptr_text', 'print_ptr_line'):
                    content = (s + b'\x00' * KB)[:KB]
                    cells_a = [guard] + list(content) + [guard]
                    exp_a = list(cells_a)
                    if name == 'print_ptr_text':
                        exp_out = bits_of(content[:cnt])
                        exp = dict(vals)
                    else:
                        line = []
                        term = None
                        for c in content:
                            if c in (0x0A, 0x00):
                                term = c
                                break
                            line.append(c)
                        out = bytes(line) + (b'\n' if term == 0x0A else b'')
                        exp_out = bits_of(out)
                        exp = dict(vals, len=len(line))
                    consumed = 0
                elif name == 'fill_bytes':
                    if s != strings[0] and s != strings[1]:
                        continue
                    for i in range(cnt):
                        exp_a[1 + i] = 0xE9
                    exp = dict(vals)
                    consumed = 0
                else:
                    content = (s + b'\x7E' * KB)[:KB]
                    cells_a = [guard] + list(content) + [guard]
                    exp_a = list(cells_a)
                    for i in range(cnt):
                        exp_b[1 + i] = content[i]
                    exp = dict(vals)
                    consumed = 0
                vals['bufa'], vals['bufb'] = pack(cells_a), pack(cells_b)
                exp['bufa'], exp['bufb'] = pack(exp_a), pack(exp_b)
                r = h.step(name, vals, io_in=io_in, timeout=20.0)
                stats['transitions'] += 1
                problems = []
                if r['cause'] != 0 or r['exit'] != 'ft':
                    problems.append(('termination', 'falls through', {'cause': r['cause'], 'exit': r.get('exit')}))
                else:
                    if r['vals'] != exp:
                        problems.append(('buffers / counters', {k: hex(x) for k, x in exp.items() if r['vals'][k] != x}, {k: hex(x) for k, x in r['vals'].items() if exp[k] != x}))
                    if r['out'] != exp_out:
                        problems.append(('output', bytes_of(exp_out)[0].decode('latin1'), bytes_of(r['out'])[0].decode('latin1')))
                    if len(io_in) - r['in_left'] != consumed:
                        problems.append(('input bits consumed', consumed, len(io_in) - r['in_left']))
                    fd = h.frame_diffs(name, r['snap'], r['vals'], extra_allowed=shared)
                    if fd:
                        problems.append(('frame', 'unchanged', [{'word': d[0], 'was': d[1], 'now': d[2], 'at': d[3]} for d in fd[:4]]))
                    outs.add((tuple(r['out']), r['vals']['bufa'], r['vals']['bufb']))
                if problems:
                    sieve.add({'kind': 'buffer helper moves the wrong bytes', 'class': f'strings {name} {problems[0][0]}',
                               'case': {'family': 'strings', 'w': w, 'block': name, 'call': call, 'string': list(s), 'count': cnt},
                               'expected': {p[0]: p[1] for p in problems}, 'observed': {p[0]: p[2] for p in problems},
                               'summary': f'w={w} {call} string={s!r} count={cnt}: {[p[0] for p in problems]} {problems[0][1]} vs {problems[0][2]}'})
                    h.restore_all()
        stats['distinct'] += len(outs)
    return stats, sieve.result(), {'w': w, 'string_helpers': [b[0] for b in B]}


def k_block(rec, sig):
    c = rec['case']
    return c.get('block') == sig.get('block') and set(rec['expected']) <= set(sig.get('fields', []))


MATCHERS = {'stl_block_doc_mismatch': k_block}


def work(task):
    return {'print': work_print, 'input': work_input, 'casts': work_casts, 'strings': work_strings}[task[0]](task)


def make_tasks(tier, only=None):
    tasks = []
    for w in ((64, 32) if tier == 'thorough' else (64,)):
        for p in range(10):
            tasks.append(('print', tier, w, p, 10))
        for p in range(6):
            tasks.append(('input', tier, w, p, 6))
        tasks.append(('casts', tier, w))
        tasks.append(('strings', tier, w))
    if tier != 'thorough':
        tasks.append(('casts', tier, 32))
        tasks.append(('strings', tier, 32))
        for p in range(3):
            tasks.append(('input', tier, 32, p, 3))
    if only:
        tasks = [t for t in tasks if t[0] == only]
    return tasks


def replay(args):
    from fjv.runner import install_watchdog
    install_watchdog()
    rec = load_replay(args.replay)
    c = rec['case']
    print('case:', c)
    tasks = [t for t in make_tasks('quick') if t[0] == c['family'] and t[2] == c['w']]
    bad = 0
    for t in tasks:
        stats, res, _ = work(t)
        for r in res[0]:
            if r['case'].get('block') == c.get('block'):
                print('STILL FAILS:', r['summary'])
                bad += 1
    if bad:
        print(f'VIOLATION property={PROP} replay={args.replay}')
        return 1
    print('replay: ok')
    return 0


def main():
    args = parse_args(PROP)
    from fjv.bind import bind
    bind('verif')
    if args.replay:
        return replay(args)
    run = Run(PROP, 'exploration', args, MATCHERS)
    total, samples = {}, []
    for stats, res, sample in pmap(work, make_tasks(args.tier, args.only), args.jobs):
        for k, v in stats.items():
            total[k] = total.get(k, 0) + v
        run.merge(res)
        if sample and len(samples) < 5:
            samples.append(sample)
    vac = []
    if not args.only and total.get('transitions', 0) < 50000:
        vac.append('too few transitions')
    if vac:
        print(f'CHECK-INTERNAL-ERROR vacuous: {vac}', file=sys.stderr)
    cov = {
        'evaluations': total.get('transitions', 0),
        'distinct_nontrivial': total.get('distinct', 0),
        'rule': 'evaluations = block executions (one value / input string each, distinct by construction); distinct_nontrivial = distinct observed '
                '(output bytes | parsed value, exit | cast result) outcomes per block, summed',
        'samples': samples or [{'note': 'none'}],
        'blocks': total.get('blocks', 0),
        'bounds': {'print_values': 'all 16-bit values for the number printers, all values for n<=8 bits', 'input_strings': 'all strings of length <= %d over %d bytes, with and without terminators' % (4 if args.tier == 'thorough' else 3, len(ALPHA)),
                   'widths': [64, 32]},
        'exhaustive': not vac,
    }
    code = run.finish(cov, assumptions=[
        'Python formatting (%x, %d, sign, no leading zeros) is the print specification; on an error exit the destination is unspecified',
        'hex.input_as_hex n reads the most significant digit first'])
    return 2 if vac and not code else code


if __name__ == '__main__':
    main_guard(main)
