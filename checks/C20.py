"""C20 - the fj command, its split flows and the Python API agree.

Configuration product (K4): programs x -w x -v x -o x -d x --werror x --lzma_preset x -s, through
 (1) the one-step flow  `fj files... [-o out]`           (subprocess: python -m flipjump.flipjump_cli)
 (2) the two-step flow  `fj --asm -o out files...` then `fj --run out`
 (3) the Python API     flipjump.assemble / Writer + assembler.assemble with the same explicit options,
                        flipjump.run with a FixedIO
Checked: byte-identical .fjm (and .fjd) files across routes, identical program output and
termination cause (the API routes run in a process where a caller has already taken flipjump.get_stl_paths() and
appended to / truncated / reversed the list it got), and the documented defaults (width 64; version 3 iff an output file is requested,
else 1 - observed on the temporary file of the one-step flow; stl included unless --no_stl).
"""
import itertools
from pathlib import Path
import os
import re
import subprocess
import sys

from fjv.bind import bind
from fjv.runner import Run, Sieve, parse_args, pmap, load_replay, main_guard

PROP = 'C20'
PY = sys.executable

PROGRAMS = {
    'nostl': (';code\nIO:\n;0\ncode:\n' + ''.join(f'IO+{b};\n' for b in [(0x48 >> i) & 1 for i in range(8)]) + 'end:\n;end\n', True, b'', b'H'),
    'hello': ('stl.startup\nstl.output "Hi\\n"\nstl.loop\n', False, b'', b'Hi\n'),
    'width': ('stl.startup\nstl.output_char \'0\' + w / 8\nstl.output_char \'\\n\'\nstl.loop\n', False, b'', None),
    'cat': ('stl.startup\nloop:\nbit.input ch\nbit.if0 8, ch, end\nbit.print ch\n;loop\nend:\nstl.loop\nch: bit.vec 8, 0\n', False, b'ab\x00', b'ab'),
}


def cli(args, stdin=b'', cwd=None):
    from fjv import REPO
    env = dict(os.environ, PYTHONPATH=str(REPO), PYTHONIOENCODING='raw_unicode_escape')
    p = subprocess.run([PY, '-m', 'flipjump.flipjump_cli'] + args, input=stdin, capture_output=True, cwd=cwd, env=env, timeout=120)
    return p.returncode, p.stdout, p.stderr


def configs(tier):
    if tier == 'thorough':
        dom = dict(w=(16, 32, 64), v=(None, 0, 1, 2, 3), d=(None, 'path', 'bare'), werror=(False, True), preset=(None, 0, 9), silent=(True, False))
        progs = ('nostl', 'hello', 'cat', 'width')
    else:
        dom = dict(w=(32, 64), v=(None, 0, 1, 2, 3), d=(None, 'path', 'bare'), werror=(False,), preset=(None, 0, 9), silent=(True, False))
        progs = ('nostl', 'hello', 'cat', 'width')
    out = []
    for prog in progs:
        for w, v, d, we, pr, s in itertools.product(dom['w'], dom['v'], dom['d'], dom['werror'], dom['preset'], dom['silent']):
            if pr is not None and v not in (None, 3):
                continue
            if tier != 'thorough' and not s and (d is not None or pr is not None):
                continue
            out.append((prog, w, v, d, we, pr, s))
    return out


def base_args(prog, w, v, d, we, pr, s, wd, tag):
    text, no_stl, _, _ = PROGRAMS[prog]
    src = wd / f'{prog}.fj'
    src.write_text(text)
    a = [str(src), '-w', str(w)]
    if v is not None:
        a += ['-v', str(v)]
    if no_stl:
        a.append('--no_stl')
    if we:
        a.append('--werror')
    if pr is not None:
        a += ['--lzma_preset', str(pr)]
    if s:
        a.append('-s')
    return a, src


FIN = re.compile(rb'Finished by ([a-zA-Z0-9<>\-]+)')


def api_assemble(src, out, dbg, w, version, no_stl, werror, preset):
    from flipjump.assembler import assembler
    from flipjump.fjm.fjm_consts import FJMVersion
    from flipjump.fjm.fjm_writer import Writer
    from flipjump.utils.functions import get_file_tuples
    from fjv.asm import quiet
    import flipjump
    with quiet():
        if preset is None:
            flipjump.assemble([src], out, memory_width=w, use_stl=not no_stl, fjm_version=FJMVersion(version), warning_as_errors=werror,
                              debugging_file_path=dbg, print_time=False)
        else:
            writer = Writer(out, w, FJMVersion(version), lzma_preset=preset)
            assembler.assemble(get_file_tuples([str(src.absolute())], no_stl=no_stl), w, writer, warning_as_errors=werror,
                               debugging_file_path=dbg, print_time=False)


def api_run(fjm, stdin):
    import flipjump
    from flipjump.interpreter.io_devices.FixedIO import FixedIO
    from fjv.asm import quiet
    dev = FixedIO(stdin)
    with quiet():
        st = flipjump.run(fjm, io_device=dev, print_time=False, print_termination=False)
    return str(st.termination_cause), dev.get_output(allow_incomplete_output=True)


def api_wrappers(src, w, version, no_stl, werror, stdin, exp_out):
    import flipjump
    from flipjump.fjm.fjm_consts import FJMVersion
    from flipjump.interpreter.io_devices.FixedIO import FixedIO
    from fjv.asm import quiet
    out = {}
    for name in ('assemble_and_run', 'assemble_and_debug'):
        fn = getattr(flipjump, name, None)
        if fn is None:
            continue
        dev = FixedIO(stdin)
        try:
            with quiet():
                st = fn([src], memory_width=w, use_stl=not no_stl, fjm_version=FJMVersion(version), warning_as_errors=werror, io_device=dev,
                        print_time=False, print_termination=False)
            out[name] = (str(st.termination_cause), dev.get_output(allow_incomplete_output=True))
        except Exception as e:  # noqa
            out[name] = (f'{type(e).__name__}: {str(e)[:100]}', b'')
    fn = getattr(flipjump, 'assemble_and_run_test_output', None)
    if fn is not None:
        try:
            with quiet():
                ok = fn([src], stdin, exp_out, memory_width=w, use_stl=not no_stl, fjm_version=FJMVersion(version), warning_as_errors=werror,
                        print_time=False, print_termination=False)
            out['assemble_and_run_test_output'] = ('looping', exp_out) if ok else ('returned False', b'')
        except Exception as e:  # noqa
            out['assemble_and_run_test_output'] = (f'{type(e).__name__}: {str(e)[:100]}', b'')
    return out


def check_config(cfg, wd, sieve, stats):
    prog, w, v, d, we, pr, s = cfg
    text, no_stl, stdin, exp_out = PROGRAMS[prog]
    if exp_out is None:
        exp_out = b'%d\n' % (w // 8)
    case = {'program': prog, 'w': w, 'version': v, 'debug': d, 'werror': we, 'preset': pr, 'silent': s}

    def bad(kind, expected, observed):
        sieve.add({'kind': kind, 'class': kind, 'case': case, 'expected': expected, 'observed': observed,
                   'summary': f'{case}: {kind}: {str(observed)[:200]}'})

    sub = wd / ('cfg-' + '-'.join(str(x) for x in cfg))
    sub.mkdir(exist_ok=True)
    args, src = base_args(prog, w, v, d, we, pr, s, sub, 'x')
    eff_version = 3 if v is None else v  # an output file is requested in all three routes below
    files, outs, causes = {}, {}, {}
    # route 1: one step with -o
    o1, d1 = sub / 'r1.fjm', sub / 'r1.fjd'
    a1 = args + ['-o', str(o1)] + (['-d', str(d1)] if d == 'path' else ['-d'] if d == 'bare' else [])
    rc, so, se = cli(a1, stdin)
    stats['cli_runs'] += 1
    if rc != 0 or not o1.exists():
        bad('one-step flow failed', 'rc 0 and an output file', {'rc': rc, 'stderr': se[-300:].decode('latin1')})
        return
    files['one-step'] = o1.read_bytes()
    outs['one-step'] = so
    # route 2: two steps
    o2, d2 = sub / 'r2.fjm', sub / 'r2.fjd'
    a2 = ['--asm'] + args + ['-o', str(o2)] + (['-d', str(d2)] if d is not None else [])
    rc, so2a, se = cli(a2)
    stats['cli_runs'] += 1
    if rc != 0 or not o2.exists():
        bad('assemble-only flow failed', 'rc 0 and an output file', {'rc': rc, 'stderr': se[-300:].decode('latin1')})
        return
    files['two-step'] = o2.read_bytes()
    rc, so2, se = cli(['--run', str(o2)] + (['-s'] if s else []) + (['-d', str(d2)] if d is not None else []), stdin)
    stats['cli_runs'] += 1
    if rc != 0:
        bad('run-only flow failed', 'rc 0', {'rc': rc, 'stderr': se[-300:].decode('latin1')})
        return
    outs['two-step'] = so2
    # route 3: API
    o3, d3 = sub / 'r3.fjm', sub / 'r3.fjd'
    try:
        api_assemble(src, o3, d3 if d is not None else None, w, eff_version, no_stl, we, pr)
        files['api'] = o3.read_bytes()
        cause3, out3 = api_run(o3, stdin)
    except Exception as e:  # noqa
        bad('python API failed', 'assembles and runs', f'{type(e).__name__}: {str(e)[:200]}')
        return
    # the combined API wrappers must honour the same options
    if pr is None and d is None:
        for wname, res in api_wrappers(src, w, eff_version, no_stl, we, stdin, exp_out).items():
            stats['cli_runs'] += 1
            if res != ('looping', exp_out):
                bad(f'API wrapper {wname} disagrees with the other routes', ['looping', exp_out.decode('latin1')], [res[0], res[1].decode('latin1') if isinstance(res[1], bytes) else res[1]])
    stats['configs'] += 1
    if len(set(files.values())) != 1:
        sizes = {k: len(x) for k, x in files.items()}
        hdr = {k: x[:20].hex() for k, x in files.items()}
        bad('.fjm bytes differ between the routes', 'byte-identical files', {'sizes': sizes, 'headers': hdr})
    if d == 'path' and not (d1.exists() and d2.exists() and d3.exists()):
        bad('a debug-label file asked for with -d PATH was not written', 'written by every route',
            {k: p_.exists() for k, p_ in (('one-step', d1), ('two-step', d2), ('api', d3))})
    if d == 'path' and d1.exists() and d2.exists() and d3.exists():
        if not (d1.read_bytes() == d2.read_bytes() == d3.read_bytes()):
            bad('debug-label files differ between the routes', 'byte-identical', {k: len(p.read_bytes()) for k, p in (('one', d1), ('two', d2), ('api', d3))})
    # defaults visible in the header
    import struct
    magic, hw, hv, _ = struct.unpack_from('<HHQQ', files['one-step'], 0)
    if hw != w or hv != eff_version:
        bad('header does not carry the requested / default width and version', {'w': w, 'version': eff_version}, {'w': hw, 'version': hv})
    # outputs / termination
    if s:
        if not (outs['one-step'] == outs['two-step'] == exp_out) or out3 != exp_out:
            bad('program output differs', exp_out.decode('latin1'), {k: x[-80:].decode('latin1') for k, x in outs.items()} | {'api': out3.decode('latin1')})
    else:
        c1 = FIN.findall(outs['one-step'])
        c2 = FIN.findall(outs['two-step'])
        if not c1 or not c2 or c1[-1] != c2[-1] or c1[-1].decode() != cause3:
            bad('termination differs between the routes', cause3, {'one-step': c1[-1:], 'two-step': c2[-1:]})
        if exp_out not in outs['one-step'] or exp_out not in outs['two-step']:
            bad('program output missing in the non-silent flow', exp_out.decode('latin1'), outs['one-step'][-200:].decode('latin1'))
    if cause3 != 'looping':
        bad('API run did not halt normally', 'looping', cause3)


def check_defaults(wd, sieve, stats):
    """in-process one-step flow WITHOUT -o: the temporary .fjm must be version 1, width 64; with -o: version 3."""
    import struct
    import tempfile
    import shutil
    import flipjump.flipjump_cli as cli_mod
    kept = {}

    class KeepingTD(tempfile.TemporaryDirectory):
        def __exit__(self, *a):
            p = os.path.join(self.name, 'out.fjm')
            if os.path.exists(p):
                kept['bytes'] = open(p, 'rb').read()
            return super().__exit__(*a)

    src = wd / 'defaults.fj'
    src.write_text(PROGRAMS['nostl'][0])
    orig = getattr(cli_mod, 'TemporaryDirectory', None)
    if orig is None:
        stats['defaults_unobservable'] = 1
        return
    cli_mod.TemporaryDirectory = KeepingTD
    saved = os.dup(1)
    devnull = os.open(os.devnull, os.O_WRONLY)
    try:
        sys.stdout.flush()
        os.dup2(devnull, 1)
        cli_mod.assemble_run_according_to_cmd_line_args(cmd_line_args=[str(src), '--no_stl', '-s'])
    except SystemExit as e:
        sieve.add({'kind': 'one-step flow without -o failed', 'class': 'defaults', 'case': {'args': ['--no_stl', '-s']}, 'expected': 'runs', 'observed': str(e),
                   'summary': 'fj prog.fj --no_stl -s failed'})
    finally:
        os.dup2(saved, 1)
        os.close(saved)
        os.close(devnull)
        cli_mod.TemporaryDirectory = orig
    stats['configs'] += 1
    if 'bytes' in kept:
        magic, hw, hv, _ = struct.unpack_from('<HHQQ', kept['bytes'], 0)
        if (hw, hv) != (64, 1):
            sieve.add({'kind': 'documented defaults violated (no output file requested)', 'class': 'defaults', 'case': {'args': ['prog.fj', '--no_stl', '-s']},
                       'expected': {'width': 64, 'version': 1}, 'observed': {'width': hw, 'version': hv}, 'summary': f'defaults without -o: width {hw}, version {hv}'})
    else:
        stats['defaults_unobservable'] = 1
    # with -o: version 3, width 64
    out = wd / 'defaults-o.fjm'
    rc, so, se = cli([str(src), '--no_stl', '-s', '-o', str(out)])
    stats['cli_runs'] += 1
    if rc == 0 and out.exists():
        magic, hw, hv, _ = struct.unpack_from('<HHQQ', out.read_bytes(), 0)
        if (hw, hv) != (64, 3):
            sieve.add({'kind': 'documented defaults violated (output file requested)', 'class': 'defaults', 'case': {'args': ['prog.fj', '--no_stl', '-s', '-o', 'x.fjm']},
                       'expected': {'width': 64, 'version': 3}, 'observed': {'width': hw, 'version': hv}, 'summary': f'defaults with -o: width {hw}, version {hv}'})
    # stl included unless --no_stl
    h = wd / 'needs_stl.fj'
    h.write_text(PROGRAMS['hello'][0])
    rc1, so1, _ = cli([str(h), '-s'])
    rc2, so2, se2 = cli([str(h), '-s', '--no_stl'])
    stats['cli_runs'] += 2
    if rc1 != 0 or so1 != b'Hi\n':
        sieve.add({'kind': 'the standard library is not included by default', 'class': 'defaults', 'case': {'args': ['hello.fj', '-s']}, 'expected': 'Hi',
                   'observed': {'rc': rc1, 'out': so1[-100:].decode('latin1')}, 'summary': 'fj hello.fj -s did not print Hi'})
    if rc2 == 0 and so2 == b'Hi\n':
        sieve.add({'kind': '--no_stl still includes the standard library', 'class': 'defaults', 'case': {'args': ['hello.fj', '-s', '--no_stl']},
                   'expected': 'fails (stl macros unknown)', 'observed': 'printed Hi', 'summary': '--no_stl had no effect'})


def check_default_device(wd, sieve, stats):
    """the API run entries WITHOUT an io_device (the terminal device): every history of <= 3 runs over three programs - one that stops
    in the middle of an output byte, one that reads half an input byte, hello - each run prints what a fresh fj process prints."""
    import io
    import flipjump
    from flipjump.fjm.fjm_consts import FJMVersion
    from fjv.asm import quiet
    import flipjump.interpreter.io_devices  # noqa
    mod = sys.modules['flipjump.interpreter.io_devices.StandardIO']
    progs = {
        'half-output-byte': (';code\nIO:\n;0\ncode:\nIO+1;\nIO+0;\nIO+1;\nend:\n;end\n', True, ''),
        'half-input-byte': ('stl.startup\nbit.input_bit x\nbit.input_bit x\nbit.input_bit x\nstl.output "k"\nstl.loop\nx: bit.bit 0\n', False, 'Z'),
        'hello': (PROGRAMS['hello'][0], False, ''),
    }
    files, ref = {}, {}
    for name, (text, no_stl, stdin_text) in progs.items():
        src = wd / f'dd-{name}.fj'
        src.write_text(text)
        files[name] = wd / f'dd-{name}.fjm'
        with quiet():
            flipjump.assemble([src], files[name], use_stl=not no_stl, fjm_version=FJMVersion(1), print_time=False)
        rc, so, se = cli(['--run', str(files[name]), '-s'], stdin=stdin_text.encode())
        stats['cli_runs'] += 1
        ref[name] = so.decode('latin1')
    names = list(progs)
    for L in (1, 2, 3):
        for hist in itertools.product(names, repeat=L):
            got = []
            for name in hist:
                old = (mod.stdin, mod.stdout)
                mod.stdin, mod.stdout = io.StringIO(progs[name][2]), io.StringIO()
                try:
                    with quiet():
                        flipjump.run(files[name], print_time=False, print_termination=False)
                    got.append(mod.stdout.getvalue())
                except Exception as e:  # noqa
                    got.append(f'{type(e).__name__}: {str(e)[:60]}')
                finally:
                    mod.stdin, mod.stdout = old
            stats['configs'] += 1
            stats['default_device_histories'] = stats.get('default_device_histories', 0) + 1
            exp = [ref[n] for n in hist]
            # complete bytes only are echoed: the half byte of 'half-output-byte' never shows
            if got != exp:
                sieve.add({'kind': 'an API run on the default device prints something else than a fresh fj process', 'class': 'default device history',
                           'case': {'history': list(hist), 'programs': {k: v[0] for k, v in progs.items()}}, 'expected': exp, 'observed': got,
                           'summary': f'flipjump.run without io_device, history {list(hist)}: printed {got} instead of {exp}'})


def check_partial_output(wd, sieve, stats):
    """a program whose output ends in the middle of a byte ('OK' and three more bits): every route runs it the same way - the
    command prints OK, the API run collects b'OK', and the output-testing API calls accept b'OK' as its output."""
    import flipjump
    from flipjump.fjm.fjm_consts import FJMVersion
    from flipjump.interpreter.io_devices.FixedIO import FixedIO
    from fjv.asm import quiet
    root = wd / 'partial'
    root.mkdir()
    bits = [(b >> i) & 1 for b in b'OK' for i in range(8)] + [1, 0, 1]
    src = root / 'partial.fj'
    src.write_text(';code\nIO:\n;0\ncode:\n' + ''.join(f'IO+{b};\n' for b in bits) + 'end:\n;end\n')
    out = root / 'partial.fjm'
    got = {}
    rc, so, se = cli([str(src), '--no_stl', '-s', '-o', str(out)])
    stats['cli_runs'] += 1
    got['fj one-step'] = (rc, so)
    rc, so, se = cli(['--run', str(out), '-s'])
    stats['cli_runs'] += 1
    got['fj --run'] = (rc, so)
    for name, fn in (('run', lambda: flipjump.run(out, io_device=dev, print_time=False, print_termination=False)),
                     ('run_test_output', lambda: flipjump.run_test_output(out, b'', b'OK', should_raise_assertion_error=False, print_time=False, print_termination=False)),
                     ('assemble_and_run_test_output', lambda: flipjump.assemble_and_run_test_output([src], b'', b'OK', use_stl=False, should_raise_assertion_error=False,
                                                                                                  print_time=False, print_termination=False))):
        dev = FixedIO(b'')
        try:
            with quiet():
                r = fn()
            got[name] = (0, dev.get_output(allow_incomplete_output=True)) if name == 'run' else (0, b'OK' if r else b'<returned False>')
        except Exception as e:  # noqa
            got[name] = (1, f'{type(e).__name__}: {str(e)[:80]}'.encode())
    stats['configs'] += 1
    if any(v != (0, b'OK') for v in got.values()):
        sieve.add({'kind': 'a program whose output ends inside a byte is not handled alike by the routes', 'class': 'partial output byte',
                   'case': {'program': src.read_text()}, 'expected': {k: 'OK' for k in got}, 'observed': {k: [v[0], v[1].decode('latin1')] for k, v in got.items()},
                   'summary': 'output "OK" + 3 bits: ' + str({k: (v[0], v[1].decode('latin1')) for k, v in got.items() if v != (0, b'OK')})})


def check_test_flavour(wd, sieve, stats):
    """the output-testing API calls give the same verdict as comparing what flipjump.run() / the fj command report: True exactly when the output
    AND the termination cause are the expected ones (the default expectation is the regular self-loop), for every way a run can end."""
    import flipjump
    from flipjump.utils.classes import TerminationCause
    from flipjump.interpreter.io_devices.FixedIO import FixedIO
    from fjv.asm import quiet
    root = wd / 'flavour'
    root.mkdir()
    bits = [(b >> i) & 1 for b in b'OK' for i in range(8)]
    head = ';code\nIO:\n;0\ncode:\n' + ''.join(f'IO+{b};\n' for b in bits)
    endings = {'looping': 'end:\n;end\n', 'null-ip': ';0\n', 'memory-error': ';1 << 40\n', 'end-of-input': 'IO;\nend:\n;end\n'}
    for ename, tail in endings.items():
        src, out = root / f'{ename}.fj', root / f'{ename}.fjm'
        src.write_text(head + tail)
        with quiet():
            flipjump.assemble([src], out, use_stl=False, print_time=False)
            dev = FixedIO(b'')
            st = flipjump.run(out, io_device=dev, print_time=False, print_termination=False)
        actual = st.termination_cause
        assert dev.get_output(allow_incomplete_output=True) == b'OK', (ename, dev.get_output(allow_incomplete_output=True))
        rc, so, se = cli(['--run', str(out), '-s'])
        stats['cli_runs'] += 1
        for expected_cause in [None] + list(TerminationCause):
            for exp_out in (b'OK', b'OQ'):
                for raises in (False, True):
                    for route in ('run_test_output', 'assemble_and_run_test_output'):
                        kw = dict(should_raise_assertion_error=raises, print_time=False, print_termination=False)
                        if expected_cause is not None:
                            kw['expected_termination_cause'] = expected_cause
                        want = (actual == (expected_cause if expected_cause is not None else TerminationCause.Looping)) and exp_out == b'OK'
                        try:
                            with quiet():
                                if route == 'run_test_output':
                                    got = flipjump.run_test_output(out, b'', exp_out, **kw)
                                else:
                                    got = flipjump.assemble_and_run_test_output([src], b'', exp_out, use_stl=False, **kw)
                        except AssertionError:
                            got = 'AssertionError'
                        except Exception as e:  # noqa
                            got = f'{type(e).__name__}: {str(e)[:80]}'
                        stats['configs'] += 1
                        exp = True if want else ('AssertionError' if raises else False)
                        if got != exp:
                            sieve.add({'kind': 'the output-testing API call gives another verdict than the run itself', 'class': f'test flavour {route}',
                                       'case': {'program': src.read_text(), 'ending': ename, 'route': route, 'expected_termination_cause': str(expected_cause),
                                                'expected_output': exp_out.decode(), 'should_raise_assertion_error': raises},
                                       'expected': exp, 'observed': got,
                                       'summary': f'{route}(ending={ename} [{actual}], expected cause={expected_cause}, expected output={exp_out!r}, raise={raises}): '
                                                  f'{got} instead of {exp} (fj --run printed {so[:40]!r})'})


def check_outfile_reuse(wd, sieve, stats):
    """histories of fj calls that write to the SAME -o path: what the one-step flow leaves there - and what it runs - is a function of the
    current call's sources and options only, whatever an earlier call left at that path (every ordered pair of option sets / source lists)."""
    root = wd / 'reuse'
    root.mkdir()
    a, b = root / 'a.fj', root / 'b.fj'
    a.write_text(PROGRAMS['width'][0])                                                # prints w/8
    b.write_text(';code\nIO:\n;0\ncode:\n' + ''.join(f'IO+{x};\n' for x in [(0x42 >> i) & 1 for i in range(8)]) + 'end:\n;end\n')   # prints B, no stl needed
    calls = [('w64-v3', [str(a), '-w', '64']), ('w32-v3', [str(a), '-w', '32']), ('w64-v1', [str(a), '-w', '64', '-v', '1']),
             ('other-source', [str(b), '--no_stl', '-w', '64']), ('w64-preset0', [str(a), '-w', '64', '--lzma_preset', '0'])]
    fresh = {}
    for name, args in calls:
        out = root / f'fresh-{name}.fjm'
        rc, so, se = cli(args + ['-s', '-o', str(out)])
        stats['cli_runs'] += 1
        fresh[name] = (rc, so, out.read_bytes() if out.exists() else None)
    for (n1, a1), (n2, a2) in itertools.permutations(calls, 2):
        out = root / 'shared.fjm'
        if out.exists():
            out.unlink()
        cli(a1 + ['-s', '-o', str(out)])
        rc, so, se = cli(a2 + ['-s', '-o', str(out)])
        stats['cli_runs'] += 2
        stats['configs'] += 1
        got = (rc, so, out.read_bytes() if out.exists() else None)
        if got != fresh[n2]:
            what = [k for k, x, y in zip(('exit code', 'program output', 'file bytes'), got, fresh[n2]) if x != y]
            sieve.add({'kind': 'the one-step flow depends on what an earlier call left at the -o path', 'class': 'outfile reuse',
                       'case': {'first_call': a1, 'second_call': a2, 'names': [n1, n2]}, 'expected': {'exit code': fresh[n2][0], 'output': fresh[n2][1].decode('latin1'), 'file': f'{len(fresh[n2][2] or b"")} bytes'},
                       'observed': {'exit code': rc, 'output': so.decode('latin1'), 'file': f'{len(got[2] or b"")} bytes', 'differs in': what},
                       'summary': f'fj {n1} then fj {n2} on one -o path: {what} differ from the {n2} call alone'})


def check_breakpoints(wd, sieve, stats):
    """label breakpoints through every route and option mix (-s, -d with a path / bare / absent, -b / -B): the run pauses at the label -
    answering `q` stops the program before the bytes after the label are printed, answering `c` lets it print all of them."""
    import io
    import flipjump
    from flipjump.interpreter.io_devices.FixedIO import FixedIO
    from fjv.asm import quiet
    root = wd / 'bp'
    root.mkdir()
    bits = lambda bs: ''.join(f'IO+{(b >> i) & 1};\n' for b in bs for i in range(8))  # noqa
    src = root / 'bp.fj'
    src.write_text(';code\nIO:\n;0\ncode:\n' + bits(b'\x01\x02') + 'mid_label:\n' + bits(b'\x03\x04') + 'end:\n;end\n')
    runs = []
    for s_opt, d_opt, b_opt in itertools.product(([], ['-s']), ([], ['-d'], ['-d', 'PATH']), (['-b', 'mid_label'], ['-B', 'id_lab'])):
        runs.append(('one-step', s_opt, d_opt, b_opt))
    for s_opt, b_opt in itertools.product(([], ['-s']), (['-b', 'mid_label'], ['-B', 'id_lab'])):
        runs.append(('two-step', s_opt, ['-d', 'PATH'], b_opt))
    for answer, want3 in ((b'q\n', False), (b'c\n', True)):
        for k, (route, s_opt, d_opt, b_opt) in enumerate(runs):
            dbg = root / f'r{k}.fjd'
            d_args = [str(dbg) if x == 'PATH' else x for x in d_opt]
            if route == 'one-step':
                rc, so, se = cli([str(src), '--no_stl'] + s_opt + d_args + b_opt, stdin=answer)
                stats['cli_runs'] += 1
            else:
                out = root / f'r{k}.fjm'
                rc0, _, se0 = cli(['--asm', str(src), '--no_stl', '-o', str(out)] + d_args)
                rc, so, se = cli(['--run', str(out)] + s_opt + d_args + b_opt, stdin=answer)
                stats['cli_runs'] += 2
            stats['configs'] += 1
            got12, got3 = b'\x01\x02' in so, b'\x03' in so
            if not got12 or got3 != want3:
                sieve.add({'kind': 'a label breakpoint is not honoured by every route / option mix', 'class': f'breakpoint {route} {s_opt} {d_opt}',
                           'case': {'route': route, 'options': s_opt + d_opt + b_opt, 'answer': answer.decode().strip(), 'program': src.read_text()},
                           'expected': 'bytes 01 02 printed, then the debugger prompt; 03 04 only after `c`',
                           'observed': {'rc': rc, 'printed_01_02': got12, 'printed_03': got3, 'stderr': se[-200:].decode('latin1')},
                           'summary': f'{route} {s_opt + d_opt + b_opt} answer {answer!r}: printed 01 02: {got12}, printed 03: {got3} (expected {want3})'})
        # the API route
        for kw in ({'breakpoints': {'mid_label'}}, {'breakpoints_contains': {'id_lab'}}):
            dev = FixedIO(b'')
            old_stdin = sys.stdin
            sys.stdin = io.StringIO(answer.decode())
            try:
                with quiet():
                    flipjump.assemble_and_debug([src], use_stl=False, io_device=dev, print_time=False, print_termination=False, **kw)
                got = dev.get_output(allow_incomplete_output=True)
            except Exception as e:  # noqa
                got = f'{type(e).__name__}: {str(e)[:80]}'.encode()
            finally:
                sys.stdin = old_stdin
            stats['configs'] += 1
            exp = b'\x01\x02\x03\x04' if want3 else b'\x01\x02'
            if got != exp:
                sieve.add({'kind': 'a label breakpoint is not honoured by every route / option mix', 'class': 'breakpoint api',
                           'case': {'route': 'assemble_and_debug', 'options': sorted(kw), 'answer': answer.decode().strip()}, 'expected': exp.hex(), 'observed': got.hex() if len(got) < 9 else got.decode('latin1'),
                           'summary': f'assemble_and_debug {sorted(kw)} answer {answer!r}: output {got!r} instead of {exp!r}'})


def check_werror(wd, sieve, stats):
    """a program that raises an assembler warning: with --werror every route refuses it, without it every route accepts it -
    whatever the other options (-s, -w, -v) are."""
    import flipjump
    from flipjump.fjm.fjm_consts import FJMVersion
    from fjv.asm import quiet
    root = wd / 'werror'
    root.mkdir()
    src = root / 'warn.fj'
    src.write_text('def m x, unused_parameter {\n  ;x\n}\nm 0, 0\n' + PROGRAMS['nostl'][0])
    for we, s, w, v in itertools.product((False, True), (False, True), (64, 32), (None, 1)):
        tag = f'{int(we)}{int(s)}{w}{v}'
        opts = ['--no_stl', '-w', str(w)] + (['--werror'] if we else []) + (['-s'] if s else []) + (['-v', str(v)] if v is not None else [])
        o1, o2, o3 = root / f'{tag}-1.fjm', root / f'{tag}-2.fjm', root / f'{tag}-3.fjm'
        rc1, _, _ = cli([str(src)] + opts + ['-o', str(o1)])
        rc2, _, _ = cli(['--asm', str(src)] + opts + ['-o', str(o2)])
        stats['cli_runs'] += 2
        stats['configs'] += 1
        try:
            with quiet():
                flipjump.assemble([src], o3, memory_width=w, use_stl=False, fjm_version=FJMVersion(3 if v is None else v), warning_as_errors=we, print_time=False)
            api_ok = True
        except Exception:  # noqa
            api_ok = False
        got = {'one-step': rc1 == 0 and o1.exists(), 'two-step': rc2 == 0 and o2.exists(), 'api': api_ok and o3.exists()}
        if set(got.values()) != {not we}:
            sieve.add({'kind': 'warnings-as-errors is not honoured by every route', 'class': f'werror={we} silent={s}',
                       'case': {'werror': we, 'silent': s, 'w': w, 'version': v, 'program': src.read_text()}, 'expected': 'refused by every route' if we else 'accepted by every route',
                       'observed': {k: ('accepted' if x else 'refused') for k, x in got.items()},
                       'summary': f'program with a warning, --werror={we} -s={s} w={w} v={v}: ' + str({k: ("accepted" if x else "refused") for k, x in got.items()})})


def check_path_spellings(wd, sieve, stats):
    """the same source named in different ways (absolute, relative to the cwd, through `dir/..`, through a symlinked directory
    and `..` - where the lexical and the real parent differ - , through a symlinked file): the fj command and the API read the
    same file, so the .fjm bytes agree."""
    import flipjump
    from flipjump.fjm.fjm_consts import FJMVersion
    from fjv.asm import quiet
    root = wd / 'paths'
    (root / 'project').mkdir(parents=True)
    (root / 'libs' / 'pkg').mkdir(parents=True)
    (root / 'project' / 'real').mkdir()
    prog_a = PROGRAMS['nostl'][0]
    prog_b = prog_a.replace('end:\n;end\n', 'IO+1;\nend:\n;end\n')   # one more output bit: another image
    (root / 'libs' / 'greeting.fj').write_text(prog_a)       # what project/vendor/../greeting.fj really is
    (root / 'project' / 'greeting.fj').write_text(prog_b)    # what it is after a lexical collapse of `vendor/..`
    os.symlink(root / 'libs' / 'pkg', root / 'project' / 'vendor')
    os.symlink(root / 'libs' / 'greeting.fj', root / 'project' / 'link.fj')
    spellings = {
        'absolute': (str(root / 'libs' / 'greeting.fj'), None),
        'relative': ('libs/greeting.fj', root),
        'dir-dotdot': (str(root / 'project' / 'real' / '..' / 'greeting.fj'), None),
        'symlinked-dir-dotdot': (str(root / 'project' / 'vendor' / '..' / 'greeting.fj'), None),
        'symlinked-dir-dotdot-relative': ('project/vendor/../greeting.fj', root),
        'symlinked-file': (str(root / 'project' / 'link.fj'), None),
    }
    for name, (path, cwd) in spellings.items():
        out1, out2, out3 = root / f'{name}-1.fjm', root / f'{name}-2.fjm', root / f'{name}-3.fjm'
        rc1, _, se1 = cli([path, '--no_stl', '-s', '-o', str(out1)], cwd=cwd)
        rc2, _, se2 = cli(['--asm', path, '--no_stl', '-o', str(out2)], cwd=cwd)
        stats['cli_runs'] += 2
        stats['configs'] += 1
        old = os.getcwd()
        api_err = None
        try:
            if cwd:
                os.chdir(cwd)
            with quiet():
                flipjump.assemble([Path(path)], out3, use_stl=False, fjm_version=FJMVersion(3), print_time=False)
        except Exception as e:  # noqa
            api_err = f'{type(e).__name__}: {str(e)[:100]}'
        finally:
            os.chdir(old)
        got = {'one-step': out1.read_bytes() if out1.exists() else f'rc={rc1} {se1[-120:].decode("latin1")}',
               'two-step': out2.read_bytes() if out2.exists() else f'rc={rc2} {se2[-120:].decode("latin1")}',
               'api': out3.read_bytes() if api_err is None and out3.exists() else api_err}
        if len({repr(v) for v in got.values()}) != 1 or not isinstance(got['api'], bytes):
            sieve.add({'kind': 'the routes do not read the same source file for one path spelling', 'class': f'path spelling {name}',
                       'case': {'spelling': name, 'path': path, 'cwd': str(cwd) if cwd else None}, 'expected': 'byte-identical .fjm files',
                       'observed': {k: (f'{len(v)} bytes' if isinstance(v, bytes) else v) for k, v in got.items()},
                       'summary': f'source given as {name} ({path}): ' + str({k: (len(v) if isinstance(v, bytes) else v) for k, v in got.items()})})


def api_user_history(part, wd):
    """what a library user may do before assembling in the same process: take the public list of stl paths and build an
    own file list out of it (the in-process API routes run after this; the fj subprocess routes are the untouched reference)"""
    import flipjump
    paths = flipjump.get_stl_paths()
    assert len(paths) > 5
    if part % 3 == 0:
        extra = wd / 'my_lib.fj'
        extra.write_text('ns stl {\n  def startup {\n    ;\n  }\n}\n')
        paths.append(extra)
    elif part % 3 == 1:
        del paths[3:]
    else:
        paths.reverse()


def work(task):
    from fjv.enginecheck import scratch
    kind, tier, part, nparts = task
    sieve = Sieve(PROP)
    stats = {'configs': 0, 'cli_runs': 0}
    wd = scratch()
    if kind in ('defaults', 'default-device', 'paths', 'werror', 'partial', 'breakpoints', 'test-flavour', 'outfile-reuse'):
        {'defaults': check_defaults, 'default-device': check_default_device, 'paths': check_path_spellings, 'werror': check_werror, 'partial': check_partial_output, 'breakpoints': check_breakpoints, 'test-flavour': check_test_flavour, 'outfile-reuse': check_outfile_reuse}[kind](wd, sieve, stats)
        return stats, sieve.result(), None
    sample = None
    api_user_history(part, wd)
    for i, cfg in enumerate(configs(tier)):
        if i % nparts != part:
            continue
        check_config(cfg, wd, sieve, stats)
        if sample is None:
            sample = {'config': dict(zip(('program', 'w', 'version', 'debug', 'werror', 'preset', 'silent'), cfg))}
    return stats, sieve.result(), sample


def replay(args):
    from fjv.enginecheck import scratch
    rec = load_replay(args.replay)
    c = rec['case']
    if 'program' not in c:
        print('defaults case; re-run the check')
        return 1
    cfg = (c['program'], c['w'], c['version'], c['debug'], c['werror'], c['preset'], c['silent'])
    sieve = Sieve(PROP)
    check_config(cfg, scratch(), sieve, {'configs': 0, 'cli_runs': 0})
    for r in sieve.records:
        print('PROBLEM', r['summary'])
    if sieve.records:
        print(f'VIOLATION property={PROP} replay={args.replay}')
        return 1
    print('replay: ok')
    return 0


def main():
    args = parse_args(PROP)
    bind('plain')
    if args.replay:
        return replay(args)
    run = Run(PROP, 'exploration', args)
    tasks = [(k, args.tier, 0, 1) for k in ('defaults', 'default-device', 'paths', 'werror', 'partial', 'breakpoints', 'test-flavour', 'outfile-reuse')] + [('cfg', args.tier, p, 32) for p in range(32)]
    total, samples = {}, []
    for stats, res, sample in pmap(work, tasks, args.jobs):
        for k, v in stats.items():
            total[k] = total.get(k, 0) + v
        run.merge(res)
        if sample and len(samples) < 3:
            samples.append(sample)
    vac = []
    if total.get('configs', 0) < 20:
        vac.append('too few configurations compared')
    if vac:
        print(f'CHECK-INTERNAL-ERROR vacuous: {vac}', file=sys.stderr)
    cov = {
        'evaluations': total.get('cli_runs', 0) + total.get('configs', 0),
        'distinct_nontrivial': total.get('configs', 0),
        'rule': 'evaluations = CLI subprocess invocations + API runs; distinct_nontrivial = option configurations (distinct tuples) for which all '
                'three routes produced a file and were compared byte by byte',
        'samples': samples or [{'note': 'none'}],
        'defaults_unobservable': total.get('defaults_unobservable', 0),
        'bounds': {'configs': len(configs(args.tier)), 'routes': ['one-step', 'asm + run', 'python API'], 'programs': list(PROGRAMS)},
        'exhaustive': not vac,
    }
    code = run.finish(cov, assumptions=[
        'the temporary .fjm of the one-step flow is observed by wrapping flipjump_cli.TemporaryDirectory in-process (if that name disappears the default-version clause is reported as unobservable, not as a violation)',
        'the API route with an explicit lzma preset uses Writer + assembler.assemble (flipjump.assemble has no preset parameter)'])
    return 2 if vac and not code else code


if __name__ == '__main__':
    main_guard(main)
