"""C12 - constant expressions evaluate as unbounded-integer arithmetic.

Bounded-exhaustive over expression trees, rendered with the FEWEST parentheses the documented
precedence/associativity table allows (so the real parser's table is what is being tested):
  pairs    - every ordered pair of the 19 binary operators, both nestings, all operand triples
  mixes    - unary x binary, unary x unary, ?: against every operator in every position
  chains   - non-associative comparison chains must be rejected
  literals - every literal notation (decimal / hex / binary / every printable char / every escape /
             all 256 \\xHH / strings up to 3 chars, little-endian)
  stages   - every pair tree x every partition of its leaves into {literal, constant, macro
             parameter, label, rep iterator}: the value must not depend on when leaves get resolved
  depth2   - (thorough) all trees with two binary children
  shared   - four constants shared by ~1000 expressions of one program (unary / binary / ?: uses interleaved with
             plain re-observations): using a constant under an operator never changes it for the other expressions
Each value is observed completely (10 x 32-bit slices + sign) through assembled op words; oracle
= reference evaluator R5 over Python ints.
"""
import itertools
import sys

from fjv.bind import bind
from fjv.runner import Run, Sieve, parse_args, pmap, load_replay, main_guard

PROP = 'C12'
W = 64
SLICES = 10
OBS = 'def obs v {\n' + ''.join(f'    ;(v >> {32 * k}) & 0xffffffff\n' for k in range(SLICES)) + '    ;v < 0\n}\n'
OPS_PER_OBS = SLICES + 1
Z = 1 << 40  # label segment base (bit address)
NLABELS = 8


def neg(x):
    return ('-', x)


def label_leaf(v):
    """an expression whose value is v and which contains a label (resolved only at label-resolution)."""
    # labels lab0..lab7 sit at Z + k*2w
    if -2 <= v <= 5:
        return f'((lab{v + 2} - {Z}) / {2 * W} - 2)'
    if v == (1 << 64) + 1:
        return f'((((lab1 - {Z}) / {2 * W}) << 64) + 1)'
    raise ValueError(v)


LOW_ADDRESSES = [0, 2 * W, 4 * W, 6 * W]
LOW_LABELS = 'low0:\n    ;\nlow1:\n    ;\nlow2:\n    ;\nlow3:'   # three ops in front of the observation slots
LOW_WORDS = 6
LABEL_SEGMENT = f'segment {Z}\n' + ''.join(f'lab{k}:\n    ;\n' for k in range(NLABELS))


class Case:
    """one expression to observe: tree (with ('id', n) leaves), env name->value, stage per name."""
    __slots__ = ('tree', 'env', 'stages', 'tag')

    def __init__(self, tree, env=None, stages=None, tag=''):
        self.tree, self.env, self.stages, self.tag = tree, env or {}, stages or {}, tag

    def to_json(self):
        return {'tree': self.tree, 'env': self.env, 'stages': self.stages, 'tag': self.tag}


def lit(v):
    """a literal tree for any int (negative numbers are a unary minus on a literal)."""
    return v if v >= 0 else ('-', -v)


def build_program(cases):
    """-> program text. expression i is observed by ops [i*11, i*11+11)."""
    from fjv.ref import expr as R5
    lines = [OBS]
    consts, body, use_labels, use_low = [], [], False, False
    for i, c in enumerate(cases):
        params, args = [], []
        leafmap = {}
        rep_name = None
        for name, st in c.stages.items():
            v = c.env[name]
            if st == 'literal':
                leafmap[name] = R5.render(lit(v)) if v >= 0 else '(' + R5.render(lit(v)) + ')'
            elif st == 'const':
                cn = f'k{i}_{name}'
                consts.append(f'{cn} = {R5.render(lit(v))}')
                leafmap[name] = cn
            elif st == 'shared':
                cn = f'sh_{name}'
                d = f'{cn} = {R5.render(lit(v))}'
                if d not in consts:
                    consts.append(d)
                leafmap[name] = cn
            elif st == 'param':
                params.append(name)
                args.append(R5.render(lit(v)) if v >= 0 else '(' + R5.render(lit(v)) + ')')
                leafmap[name] = name
            elif st == 'label':
                leafmap[name] = label_leaf(v)
                use_labels = True
            elif st == 'barelabel':
                # a BARE label identifier as the operand (its value is its address): low0..low3 sit at 0, 2w, 4w, 6w
                assert v in LOW_ADDRESSES, v
                leafmap[name] = f'low{LOW_ADDRESSES.index(v)}'
                use_low = True
            elif st == 'rep':
                rep_name = name
                params.append(name)
                args.append(None)
                leafmap[name] = name
        text = R5.render(c.tree, lambda n: leafmap[n])
        if text.startswith('-'):
            text = '(' + text + ')'  # `macro -x` would read as a binary minus
        if params:
            lines.append(f'def t{i} {", ".join(params)} {{\n    obs {text}\n}}')
            if rep_name is not None:
                n = c.env[rep_name]
                # the iterator takes 0..n; only the LAST expansion (value n) is observed at this slot,
                # the first n expansions are sent to a sink segment by the caller below
                rest = [a if a is not None else 'it' for a in args]
                body.append(('rep', i, n, rest))
            else:
                body.append(('call', f't{i} ' + ', '.join(args)))
        else:
            body.append(('call', f'obs {text}'))
    out = lines[:1] + consts + lines[1:]  # constants must be defined before the text that uses them
    if use_low:
        out.append(LOW_LABELS)
    sink = []
    for b in body:
        if b[0] == 'call':
            out.append(b[1])
        else:
            _, i, n, rest = b
            # rep(n+1, it): expansions it=0..n. to keep slots aligned, expansions 0..n-1 go to a sink
            # segment and the observed one is a direct call with the iterator bound through a rep of count 1
            # shifted: rep(1, it) t i (it + n)  -> iterator value 0, argument it+n == n
            call = f'rep(1, it) t{i} ' + ', '.join(a if a != 'it' else f'it + {n}' for a in rest)
            if i % 2:
                # every other case: the rep sits in a macro whose own parameter is spelled like the iterator - inside the rep's arguments the
                # name means the iterator (the innermost binding), whichever of the two substitutions is performed first
                out.append(f'def shadow{i} it {{\n    {call}\n}}\nshadow{i} 12345')
            else:
                out.append(call)
    if use_labels:
        out.append(LABEL_SEGMENT)
    return '\n'.join(out) + '\n'


USE_STL = [False]   # the `shared` family assembles half of its programs next to the standard library (its parse is cached by the process)


def observe(cases, workdir):
    """assemble the program; -> list of observed ints (or an exception summary string per program)."""
    from fjv.asm import assemble_text
    from flipjump.fjm.fjm_reader import Reader
    text = build_program(cases)
    out = workdir / 'c12.fjm'
    try:
        assemble_text(text, out, workdir, w=W, version=1, use_stl=USE_STL[0], werror=False)
    except Exception as e:  # noqa
        return None, f'{type(e).__name__}: {str(e)[:300]}', text
    mem = Reader(out).memory
    vals = []
    shift = LOW_WORDS if LOW_LABELS in text else 0
    for i in range(len(cases)):
        base = 2 * OPS_PER_OBS * i + shift
        sl = [mem.get(base + 2 * k + 1, 0) for k in range(SLICES)]
        sign = mem.get(base + 2 * SLICES + 1, 0)
        v = sum(s << (32 * k) for k, s in enumerate(sl))
        if sign:
            v -= 1 << (32 * SLICES)
        vals.append(v)
    return vals, None, text


def check_batch(cases, workdir, sieve, stats):
    from fjv.ref import expr as R5
    exp = []
    keep = []
    for c in cases:
        try:
            v = R5.ev(c.tree, c.env)
        except R5.EvalError:
            stats['skipped_undefined'] += 1
            continue
        except R5.TooBig:
            stats['skipped_too_big'] += 1
            continue
        keep.append(c)
        exp.append(v)
    if not keep:
        return
    vals, err, text = observe(keep, workdir)
    stats['programs'] += 1
    if vals is None:
        if len(keep) == 1:
            c = keep[0]
            stats['evaluated'] += 1
            sieve.add({'kind': 'valid expression rejected', 'class': 'rejected ' + c.tag.split(' ')[0], 'case': c.to_json(),
                       'expected': exp[0], 'observed': err, 'text': R5.render(c.tree),
                       'summary': f'{c.tag}: `{R5.render(c.tree)}` {c.stages or ""} should be {exp[0]} but assembly failed: {err[:120]}'})
            return
        mid = len(keep) // 2
        check_batch(keep[:mid], workdir, sieve, stats)
        check_batch(keep[mid:], workdir, sieve, stats)
        return
    for c, e, g in zip(keep, exp, vals):
        stats['evaluated'] += 1
        if e != g:
            sieve.add({'kind': 'wrong value', 'class': 'wrong value ' + c.tag.split(' ')[0], 'case': c.to_json(), 'expected': e, 'observed': g,
                       'text': R5.render(c.tree),
                       'summary': f'{c.tag}: `{R5.render(c.tree)}` env={c.env} stages={c.stages} should be {e}, assembled to {g}'})


# ------------------------------------------------------------------ families
OPERANDS = (0, 1, 2, 3, 5, -2)


def fam_pairs(tier):
    from fjv.ref import expr as R5
    ops = R5.BINARY
    triples = list(itertools.product(OPERANDS, repeat=3)) if tier == 'thorough' else \
        [t for t in itertools.product((0, 1, 2, 3, -2), repeat=3)]
    for o1 in ops:
        for o2 in ops:
            for (x, y, z) in triples:
                yield Case((o2, (o1, lit(x), lit(y)), lit(z)), tag=f'pair-left {o1} {o2}')
                yield Case((o1, lit(x), (o2, lit(y), lit(z))), tag=f'pair-right {o1} {o2}')


def fam_mixes(tier):
    from fjv.ref import expr as R5
    vals = (0, 1, 2, 3, -2, 5)
    for u in R5.UNARY:
        for x in vals:
            yield Case((u, lit(x)), tag=f'unary {u}')
            for u2 in R5.UNARY:
                yield Case((u, (u2, lit(x))), tag=f'unary-unary {u} {u2}')
        for b in R5.BINARY:
            for x, y in itertools.product(vals, repeat=2):
                yield Case((u, (b, lit(x), lit(y))), tag=f'unary-of-binary {u} {b}')
                yield Case((b, (u, lit(x)), lit(y)), tag=f'binary-left-unary {b} {u}')
                yield Case((b, lit(x), (u, lit(y))), tag=f'binary-right-unary {b} {u}')
    tv = (0, 1, 2, -2)
    for c, a, b in itertools.product(tv, repeat=3):
        yield Case(('?:', lit(c), lit(a), lit(b)), tag='ternary')
    for pos in range(3):
        for c, a, b, d, e in itertools.product((0, 1), (2, 3), (0, 5), (1, -2), (0, 3)):
            inner = ('?:', lit(c), lit(a), lit(b))
            kids = [lit(d), lit(e), lit(7)]
            kids[pos] = inner
            yield Case(('?:',) + tuple(kids), tag=f'ternary-in-ternary pos{pos}')
    for bop in R5.BINARY:
        for x, y, z, v in itertools.product((0, 1, 3), (0, 2), (1, 5), (0, 2)):
            bn = (bop, lit(x), lit(y))
            yield Case(('?:', bn, lit(z), lit(v)), tag=f'binary-in-ternary-cond {bop}')
            yield Case(('?:', lit(x), bn, lit(v)), tag=f'binary-in-ternary-then {bop}')
            yield Case(('?:', lit(x), lit(z), (bop, lit(y), lit(v))), tag=f'binary-in-ternary-else {bop}')
            t = ('?:', lit(x), lit(y), lit(z))
            yield Case((bop, t, lit(v)), tag=f'ternary-left-of-binary {bop}')
            yield Case((bop, lit(v), t), tag=f'ternary-right-of-binary {bop}')


def fam_stages(tier):
    """pair trees with identifier leaves x every partition of the leaves into resolution stages."""
    from fjv.ref import expr as R5
    stages = ('literal', 'const', 'param', 'label', 'rep')
    triples = [(1, 2, 3), (5, 0, 2), (-2, 3, 1)] if tier == 'thorough' else [(3, 1, 2), (-2, 5, 0)]
    ops = R5.BINARY
    for o1 in ops:
        for o2 in ops:
            for shape in (0, 1):
                tree = (o2, (o1, ('id', 'a'), ('id', 'b')), ('id', 'c')) if shape == 0 else (o1, ('id', 'a'), (o2, ('id', 'b'), ('id', 'c')))
                for (x, y, z) in triples:
                    for st in itertools.product(stages, repeat=3):
                        if st.count('rep') > 1:
                            continue
                        if all(s == 'literal' for s in st):
                            continue
                        env = {'a': x, 'b': y, 'c': z}
                        if 'rep' in st and env['abc'[st.index('rep')]] < 0:
                            continue
                        yield Case(tree, env, dict(zip('abc', st)), tag=f'stages {o1} {o2}')
    # unary / ternary with late leaves
    for u in R5.UNARY:
        for st in ('const', 'param', 'label', 'rep'):
            for x in (0, 3, -2, 5):
                if st == 'rep' and x < 0:
                    continue
                yield Case((u, ('id', 'a')), {'a': x}, {'a': st}, tag=f'stages unary {u}')
    for st in itertools.product(('const', 'param', 'label'), repeat=3):
        for c, a, b in ((0, 2, 3), (1, 2, 3), (5, -2, 0), (-2, 2, 3), (-1, 5, -2)):  # any non-zero condition, also a negative one, selects the first branch
            yield Case(('?:', ('id', 'a'), ('id', 'b'), ('id', 'c')), {'a': c, 'b': a, 'c': b}, dict(zip('abc', st)), tag='stages ternary')
            if c < 0:
                # the condition is a difference / negation of late leaves
                yield Case(('?:', ('-', ('id', 'a'), 5), ('id', 'b'), ('id', 'c')), {'a': c + 5, 'b': a, 'c': b}, dict(zip('abc', st)), tag='stages ternary of a difference')
                yield Case(('?:', ('-', ('id', 'a')), ('id', 'b'), ('id', 'c')), {'a': -c, 'b': a, 'c': b}, dict(zip('abc', st)), tag='stages ternary of a negation')
    big = (1 << 64) + 1
    for op in R5.BINARY:
        for st in ('literal', 'const', 'param', 'label'):
            for other in (3, -2, 1):
                yield Case((op, ('id', 'a'), ('id', 'b')), {'a': big, 'b': other}, {'a': st, 'b': 'param'}, tag=f'stages big {op}')
                yield Case((op, ('id', 'b'), ('id', 'a')), {'a': big, 'b': other}, {'a': st, 'b': 'const'}, tag=f'stages big {op}')


SHARED = {'s0': 5, 's1': -3, 's2': 0, 's3': (1 << 64) + 1}


def fam_shared(tier):
    """constants shared by many expressions of ONE program: using a constant under an operator must not change what
    the constant means for the other (earlier and later) expressions."""
    from fjv.ref import expr as R5
    names = list(SHARED)

    def case(tree, tag):
        used = sorted({n for n in names if repr(('id', n)) in repr(tree)})
        return Case(tree, {n: SHARED[n] for n in used}, {n: 'shared' for n in used}, tag=tag)
    for n in names:
        leaf = ('id', n)
        yield case(leaf, 'shared plain')
        for u in R5.UNARY:
            yield case((u, leaf), f'shared unary {u}')
            yield case(leaf, 'shared plain')
            yield case((u, (u, leaf)), f'shared unary-unary {u}')
            for b in R5.BINARY:
                yield case((b, (u, leaf), leaf), f'shared {u} {b} left')
                yield case((b, leaf, (u, leaf)), f'shared {u} {b} right')
                yield case(leaf, 'shared plain')
                for m in names:
                    if m != n:
                        yield case((b, (u, leaf), ('id', m)), f'shared2 {u} {b}')
        for b in R5.BINARY:
            yield case((b, leaf, leaf), f'shared {b} self')
            yield case(('?:', leaf, (b, leaf, 1), leaf), f'shared ternary {b}')


def fam_barelabel(tier):
    """a bare label identifier directly under an operator, on either side of a number / another label / a constant: the value is
    the label's address, whatever the operand order (labels at 0, 2w, 4w, 6w so that / % << >> ** give telling values)."""
    from fjv.ref import expr as R5
    nums = (1000, 3, 128, 0, 129)
    for la in LOW_ADDRESSES:
        for u in R5.UNARY:
            yield Case((u, ('id', 'a')), {'a': la}, {'a': 'barelabel'}, tag=f'barelabel unary {u}')
        for b in R5.BINARY:
            for k in nums:
                yield Case((b, k, ('id', 'a')), {'a': la}, {'a': 'barelabel'}, tag=f'barelabel number {b} label')
                yield Case((b, ('id', 'a'), k), {'a': la}, {'a': 'barelabel'}, tag=f'barelabel label {b} number')
                yield Case((b, ('id', 'c'), ('id', 'a')), {'a': la, 'c': k}, {'a': 'barelabel', 'c': 'const'}, tag=f'barelabel const {b} label')
                yield Case((b, ('id', 'p'), ('id', 'a')), {'a': la, 'p': k}, {'a': 'barelabel', 'p': 'param'}, tag=f'barelabel param {b} label')
            for lb in LOW_ADDRESSES:
                yield Case((b, ('id', 'a'), ('id', 'b')), {'a': la, 'b': lb}, {'a': 'barelabel', 'b': 'barelabel'}, tag=f'barelabel label {b} label')
        for k in (5, 0):
            yield Case(('?:', ('id', 'a'), k, 7), {'a': la}, {'a': 'barelabel'}, tag='barelabel ternary condition')
            yield Case(('?:', k, ('id', 'a'), 7), {'a': la}, {'a': 'barelabel'}, tag='barelabel ternary branch')


def fam_depth2(tier):
    from fjv.ref import expr as R5
    ops = R5.BINARY
    quads = [(3, 1, 2, 5), (-2, 2, 0, 1), (1, 0, 3, -2)]
    for o in ops:
        for o1 in ops:
            for o2 in ops:
                for (a, b, c, d) in quads:
                    yield Case((o, (o1, lit(a), lit(b)), (o2, lit(c), lit(d))), tag=f'depth2 {o} {o1} {o2}')


def literal_cases():
    """(text, expected value)"""
    out = []
    for v in (0, 1, 7, 10, 255, 256, 65535, 1 << 32, (1 << 64) - 1, (1 << 64) + 1, 12345678901234567890123):
        out.append((str(v), v))
        out.append((hex(v), v))
        out.append((hex(v).upper().replace('0X', '0x'), v))
        out.append(('0X' + hex(v)[2:], v))
        out.append((bin(v), v))
        out.append(('0B' + bin(v)[2:], v))
    out += [('010', 10), ('000', 0), ('0x0a', 10), ('0x0A', 10), ('0xfF', 255), ('0b0011', 3), ('00009', 9)]
    for ch in range(0x20, 0x7F):
        if chr(ch) in "'\\":
            continue
        out.append((f"'{chr(ch)}'", ch))
    esc = {'0': 0, 'a': 7, 'b': 8, 'e': 0x1B, 'f': 0xC, 'n': 0xA, 'r': 0xD, 't': 9, 'v': 0xB, '\\': 0x5C, "'": 0x27, '"': 0x22, '?': 0x3F}
    for k, v in esc.items():
        out.append((f"'\\{k}'", v))
    for b in range(256):
        out.append((f"'\\x{b:02x}'", b))
        out.append((f"'\\X{b:02X}'", b))
    chars = [('a', 0x61), (' ', 0x20), ('\\n', 0xA), ('\\0', 0), ('\\"', 0x22), ('\\xfe', 0xFE), ("'", 0x27), ('\\\\', 0x5C), ('~', 0x7E)]
    out.append(('""', 0))
    for n in (1, 2, 3):
        for combo in itertools.product(chars, repeat=n):
            text = '"' + ''.join(c[0] for c in combo) + '"'
            val = sum(c[1] << (8 * i) for i, c in enumerate(combo))
            out.append((text, val))
    out.append(('"' + 'ab' * 6 + '"', sum(b << (8 * i) for i, b in enumerate(b'ab' * 6))))
    return out


LONG_LITERAL_MODULUS = (1 << 255) - 19


def fam_literals(tier):
    for text, val in literal_cases():
        # the literal alone, and inside an expression (+ 0) on each side
        yield Case(('raw', text), tag='literal'), val
        yield Case(('+', ('raw', text), 0), tag='literal+0'), val
    # long literals (more digits than a chunked / limited conversion takes in one piece), in each base: observed modulo a 255-bit prime
    # and through their top 200 bits (the whole value does not fit the observation window)
    for nd in (100, 511, 512, 513, 700, 1024, 1500, 4000):
        v = int('7' + '1234567890' * (nd // 10) + '3' * (nd % 10))
        for text in (str(v), hex(v)) + ((bin(v),) if nd == 700 else ()):
            yield Case(('%', ('raw', text), LONG_LITERAL_MODULUS), tag=f'long-literal-{nd}-digits mod p'), v % LONG_LITERAL_MODULUS
            yield Case(('>>', ('raw', text), v.bit_length() - 200), tag=f'long-literal-{nd}-digits top bits'), v >> (v.bit_length() - 200)


def chain_texts():
    cmp_ops = ('<', '>', '<=', '>=')
    for a in cmp_ops:
        for b in cmp_ops:
            yield f'1 {a} 2 {b} 3'


# ------------------------------------------------------------------ workers
FAMILIES = {'pairs': fam_pairs, 'mixes': fam_mixes, 'stages': fam_stages, 'depth2': fam_depth2, 'shared': fam_shared, 'barelabel': fam_barelabel}
BATCH = 150


def work(task):
    from fjv.enginecheck import scratch
    from fjv.ref import expr as R5
    fam, tier, part, nparts = task
    import resource
    soft, hard = resource.getrlimit(resource.RLIMIT_AS)
    resource.setrlimit(resource.RLIMIT_AS, (4 << 30, hard))   # a runaway big-number computation ends in MemoryError, not in the host's OOM killer
    cpu = 240 if tier != 'thorough' else 3600                  # ... and one that only burns CPU inside a C-level big-number operation (no signal
    resource.setrlimit(resource.RLIMIT_CPU, (cpu, resource.getrlimit(resource.RLIMIT_CPU)[1]))   # handler runs there) ends the worker
    sieve = Sieve(PROP)
    stats = {'evaluated': 0, 'programs': 0, 'skipped_undefined': 0, 'skipped_too_big': 0, 'generated': 0}
    tags = set()
    wd = scratch()
    sample = None
    if fam == 'chains':
        from fjv.asm import assemble_text
        from flipjump.utils.exceptions import FlipJumpParsingException
        for text in chain_texts():
            stats['generated'] += 1
            stats['evaluated'] += 1
            try:
                assemble_text(f';{text}\n', wd / 'x.fjm', wd, w=W, version=1, use_stl=False)
                sieve.add({'kind': 'non-associative chain accepted', 'case': {'text': text}, 'expected': 'syntax error', 'observed': 'assembled',
                           'summary': f'`{text}` must be a syntax error (comparisons do not associate)'})
            except FlipJumpParsingException:
                pass
            except Exception as e:  # noqa
                sieve.add({'kind': 'non-associative chain: wrong failure', 'case': {'text': text}, 'expected': 'FlipJumpParsingException',
                           'observed': type(e).__name__, 'summary': f'`{text}`: {type(e).__name__}'})
        return stats, sieve.result(), None, len(tags), {}
    if fam == 'literals':
        items = list(fam_literals(tier))
        mine = items[part::nparts]
        for i in range(0, len(mine), BATCH):
            chunk = mine[i:i + BATCH]
            cases = [c for c, _ in chunk]
            stats['generated'] += len(cases)
            vals, err, text = observe(cases, wd)
            stats['programs'] += 1
            if vals is None:
                # attribute
                for c, v in chunk:
                    vv, e2, _ = observe([c], wd)
                    stats['evaluated'] += 1
                    if vv is None:
                        sieve.add({'kind': 'valid literal rejected', 'case': c.to_json(), 'expected': v, 'observed': e2,
                                   'summary': f'literal {c.tree} should be {v}: {e2[:100]}'})
                    elif vv[0] != v:
                        sieve.add({'kind': 'wrong literal value', 'case': c.to_json(), 'expected': v, 'observed': vv[0],
                                   'summary': f'literal {c.tree} should be {v}, got {vv[0]}'})
                continue
            for (c, v), g in zip(chunk, vals):
                stats['evaluated'] += 1
                if g != v:
                    sieve.add({'kind': 'wrong literal value', 'case': c.to_json(), 'expected': v, 'observed': g,
                               'summary': f'literal {c.tree} should be {v}, got {g}'})
        return stats, sieve.result(), {'literal': mine[0][0].tree[1] if mine else None}, len(mine), {}
    gen = FAMILIES[fam](tier)
    # many programs of ONE process that define the same constant names, next to the (cached) standard library: a constant is the program's own
    USE_STL[0] = fam == 'shared' and part % 2 == 1
    batch = []
    discr = {}
    for i, c in enumerate(gen):
        if i % nparts != part:
            continue
        stats['generated'] += 1
        tags.add(c.tag)
        batch.append(c)
        if fam == 'pairs':
            # does this operand triple discriminate the two parses of `x o1 y o2 z` ?
            try:
                t = c.tree
                if c.tag.startswith('pair-left'):
                    o2, (o1, x, y), z = t
                    alt = (o1, x, (o2, y, z))
                else:
                    o1, x, (o2, y, z) = t
                    alt = (o2, (o1, x, y), z)
                key = c.tag.split(' ', 1)[1]
                if R5.ev(t) != R5.ev(alt):
                    discr[key] = True
                else:
                    discr.setdefault(key, False)
            except (R5.EvalError, R5.TooBig):
                pass
        if len(batch) >= BATCH:
            check_batch(batch, wd, sieve, stats)
            if sample is None:
                sample = {'text': R5.render(batch[0].tree, None if not batch[0].env else (lambda n: n)), 'env': batch[0].env,
                          'stages': batch[0].stages, 'value': None}
            batch = []
    if batch:
        check_batch(batch, wd, sieve, stats)
    return stats, sieve.result(), sample, len(tags), discr


def make_tasks(tier, only=None):
    tasks = [('chains', tier, 0, 1)]
    tasks += [('literals', tier, p, 8) for p in range(8)]
    tasks += [('pairs', tier, p, 16) for p in range(16)]
    tasks += [('mixes', tier, p, 8) for p in range(8)]
    tasks += [('stages', tier, p, 32) for p in range(32)]
    tasks += [('shared', tier, p, 4) for p in range(4)]
    tasks += [('barelabel', tier, p, 4) for p in range(4)]
    if tier == 'thorough':
        tasks += [('depth2', tier, p, 16) for p in range(16)]
    if only:
        tasks = [t for t in tasks if t[0] == only]
    return tasks


def replay(args):
    from fjv.enginecheck import scratch
    from fjv.ref import expr as R5
    rec = load_replay(args.replay)
    c = rec['case']
    if 'tree' not in c:
        print('chain case:', c)
        return 1

    def tup(x):
        return tuple(tup(y) for y in x) if isinstance(x, list) else x
    case = Case(tup(c['tree']), c['env'], c['stages'], c['tag'])
    if case.tree[0] == 'raw' or (len(case.tree) == 3 and isinstance(case.tree[1], tuple) and case.tree[1][0] == 'raw'):
        exp = rec['expected']
    else:
        exp = R5.ev(case.tree, case.env)
    vals, err, text = observe([case], scratch())
    print(text)
    print('expected', exp, 'observed', vals if vals is not None else err)
    if vals is None or vals[0] != exp:
        print(f'VIOLATION property={PROP} replay={args.replay}')
        return 1
    print('replay: ok')
    return 0


def main():
    args = parse_args(PROP)
    bind('plain')
    if args.replay:
        return replay(args)
    run = Run(PROP, 'exploration', args)
    total, samples, ntags, discr = {}, [], 0, {}
    from fjv.runner import Crash
    tasks = make_tasks(args.tier, args.only)
    for ti, item in enumerate(pmap(work, tasks, args.jobs, on_crash='yield')):
        if isinstance(item, Crash):
            # every generated expression has a small defined value: an assembler that exhausts the worker's 4 GiB address space (or dies) on
            # one of them computed something else
            run.report({'kind': 'the assembling process died while evaluating small expressions', 'class': f'worker died [{tasks[ti][0]}]',
                        'case': {'task': list(tasks[ti])}, 'expected': 'every expression of the family evaluates to a value of at most 300 bits',
                        'observed': str(item)[:300], 'summary': f'family {tasks[ti][0]} part {tasks[ti][2]}: the worker died ({str(item)[:120]})'})
            continue
        stats, res, sample, tags, d = item
        for k, v in stats.items():
            total[k] = total.get(k, 0) + v
        run.merge(res)
        ntags += tags
        for k, v in d.items():
            discr[k] = discr.get(k, False) or v
        if sample and len(samples) < 4:
            samples.append(sample)
    undiscriminated = sorted(k for k, v in discr.items() if not v)
    vac = []
    if not args.only and total.get('evaluated', 0) < 50000:
        vac.append('too few expressions evaluated')
    if vac:
        print(f'CHECK-INTERNAL-ERROR vacuous: {vac}', file=sys.stderr)
    cov = {
        'evaluations': total.get('evaluated', 0),
        'distinct_nontrivial': total.get('evaluated', 0) - total.get('dups', 0),
        'rule': 'evaluations = expressions assembled and observed completely (10 x 32-bit slices + sign); every generated expression is a '
                'distinct (tree, operand, stage-partition) combination by construction and has a defined value of <= 300 bits (non-trivial); '
                'undefined (/0, negative shift/exponent) and oversized ones are skipped and counted',
        'samples': samples or [{'note': 'none'}],
        'programs_assembled': total.get('programs', 0),
        'skipped_undefined': total.get('skipped_undefined', 0),
        'skipped_too_big': total.get('skipped_too_big', 0),
        'operator_pairs': len(discr),
        'operator_pairs_discriminated_by_the_operand_set': sum(1 for v in discr.values() if v),
        'operator_pairs_not_discriminated': undiscriminated,
        'literal_forms': len(literal_cases()),
        'bounds': {'w': W, 'max_value_bits': 300, 'operands': list(OPERANDS) + [(1 << 64) + 1], 'stages': ['literal', 'const', 'param', 'label', 'rep']},
        'exhaustive': not vac,
    }
    code = run.finish(cov, assumptions=[
        'R5 holds an independent transcription of the precedence/associativity table; ?: is compared only on trees all of whose sub-expressions are defined',
        'values are observed through `>>`, `&` and `<` applied to a macro parameter (10 x 32-bit slices + sign)'])
    return 2 if vac and not code else code


if __name__ == '__main__':
    main_guard(main)
