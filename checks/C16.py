"""C16 - the debug label table is exact.

For every program of the C03 family (all skeletons x all assignments of the colliding identifier
pool, single-file and every 2-file split) x w:
 (1) every label instance of the inlined program (R4) has an entry in the saved table with the
     instance's address - top-level / extern labels under their exact (namespace-qualified) name,
     macro-local labels under a name ending in the source label's name - and distinct instances get
     distinct names (two expansions / two source labels never share a name);
 (2) save -> load returns the table unchanged (also for synthetic tables);
 (3) breakpoints by exact label and by substring resolve to exactly the addresses of the matching
     labels, for every label and for a systematically derived substring set (every separator-
     delimited fragment of every name, incl. fragments with '(' ')' '.' ':' '{' '-').
The naming FORMAT is not pinned - only uniqueness, suffix and addresses.
 (4) histories over ONE debug file in one process: every sequence of <= 4 (thorough 5) operations over {save, assemble
     with a debug path, replace / copy the file from outside, load, build a breakpoint handler} x five spellings of the
     path (absolute Path / str / cwd-relative / through `sub/..` / through a symlink): every read returns the table
     that was written last.
 (5) an stl program's label table after other assemblies of the same process (the stl under other / permuted short names,
     another user short name): equal to the table a fresh process writes (names come from the program's own assembly).
"""
import itertools
import re
import sys

from fjv.bind import bind
from fjv.runner import Run, Sieve, parse_args, pmap, load_replay, main_guard

PROP = 'C16'


def assemble_with_labels(texts, w, wd, tag):
    from fjv.asm import assemble_text
    from flipjump.utils.exceptions import FlipJumpException
    from flipjump.utils.functions import load_debugging_labels
    out, dbg = wd / f'c16-{tag}.fjm', wd / f'c16-{tag}.fjd'
    try:
        assemble_text(texts, out, wd, w=w, version=1, use_stl=False, werror=False, debug_path=dbg)
    except FlipJumpException as e:
        return None, f'{type(e).__name__}: {str(e)[:200]}', None
    return load_debugging_labels(dbg), None, dbg


def base_of(prim_name):
    return re.sub(r'__x\d+$', '', prim_name)


def fragments(table):
    """substrings used for contains-breakpoints: every fragment of every name delimited by the
    separators that occur in names, plus short windows around special characters."""
    frags = set()
    for name in table:
        for part in re.split(r'---|:', name):
            if part:
                frags.add(part)
        for m in re.finditer(r'[().{}\-\[\]*+?$^|\\]', name):
            a = max(0, m.start() - 3)
            frags.add(name[a:m.end() + 2])
            frags.add(name[m.start():m.end() + 1])
    frags.update(n for n in table if len(n) < 40)
    return sorted(f for f in frags if f)


CALL_CHUNK = re.compile(r'^\s*(rep\s*\(|[A-Za-z_.][\w.]*[ \t]*[^:;=\s{]*[^:;={]*$)')
KEYWORD_CHUNK = re.compile(r'^\s*(def|ns|pad|wflip|segment|reserve)\b')


def check_program(name, slots, program, w, wd, sieve, stats, files):
    from fjv.ref import macro as R4
    from flipjump.interpreter.debugging.breakpoints import get_breakpoint_handler
    from flipjump.utils.functions import save_debugging_labels, load_debugging_labels
    from fjv.asm import quiet
    chunks = R4.top_level_chunks(program)
    if files == 1:
        texts = [''.join(chunks)]
    elif files == 2:
        k = max(1, len(chunks) // 2)
        texts = [''.join(chunks[:k]), ''.join(chunks[k:])]
    else:
        # two files whose first top-level macro calls sit on the SAME line number (the second file is padded with empty lines)
        calls = [i for i, ch in enumerate(chunks) if CALL_CHUNK.match(ch) and not KEYWORD_CHUNK.match(ch)]
        if len(calls) < 2:
            return
        k = calls[0] + 1
        line1 = ''.join(chunks[:calls[0]]).count('\n') + (len(chunks[calls[0]]) - len(chunks[calls[0]].lstrip('\n')))
        second = ''.join(chunks[k:])
        line2 = ''.join(chunks[k:calls[1]]).count('\n') + (len(chunks[calls[1]]) - len(chunks[calls[1]].lstrip('\n')))
        if line1 < line2:
            return
        texts = [''.join(chunks[:k]), '\n' * (line1 - line2) + second]
    case = {'skeleton': name, 'slots': list(slots), 'w': w, 'files': files, 'text': '\n// ---- next file ----\n'.join(texts)}

    def bad(kind, expected, observed):
        sieve.add({'kind': kind, 'class': f'{kind}', 'case': case, 'expected': expected, 'observed': observed,
                   'summary': f'{name} slots={slots} w={w} files={files}: {kind}: {str(observed)[:160]}'})

    try:
        prim, instances = R4.inline(program)
    except R4.InlineError:
        return
    expansions = list(R4.EXPANSIONS)
    ref_table, err, _ = assemble_with_labels(R4.render_primitive(prim), w, wd, 'ref')
    if ref_table is None:
        # the inlined program is rejected (e.g. a label declared twice): the macro program must not produce a label table either
        table, err2, _ = assemble_with_labels(texts, w, wd, 'orig')
        if table is not None:
            bad('a label table was written for a program whose inlining is rejected', err, f'{len(table)} entries')
        return
    table, err, dbg = assemble_with_labels(texts, w, wd, 'orig')
    stats['programs'] += 1
    if table is None:
        bad('program rejected', 'assembles', err)
        return
    stats['labels'] += len(table)
    # (1) instances <-> table names
    groups = {}
    for path, src, prim_name, kind in instances:
        addr = ref_table[prim_name.replace('.', '__d__')]
        stats['instances'] += 1
        if kind == 'global':
            if table.get(src) != addr:
                bad('top-level label not in the table under its exact name with its address', {src: addr}, {src: table.get(src)})
        else:
            groups.setdefault((addr, base_of(prim_name)), []).append(path)
    for (addr, base), paths in groups.items():
        names = [n for n, a in table.items() if a == addr and (n == base or re.search(r'(^|[^A-Za-z0-9_])' + re.escape(base) + '$', n))]
        if len(names) < len(paths):
            bad('macro-local label instances without their own table entry',
                f'{len(paths)} distinct names ending in {base!r} at address {addr}', names)
    # every table name must denote an address inside the program and names are unique by construction (dict);
    # the same NAME at two addresses would have been a collision: check the ref/orig instance counts agree
    # (1b) a table entry that names an expansion path (the implementation's `...---:start:` entries) sits at the first statement
    #      of an expansion of the macro it names last: where some macro's expansion starts, the entry names one of the
    #      expansions starting there, not an expansion that emitted nothing before it. only checked when the entry's name ends with a macro name of the program.
    macro_names = {e[0] for e in expansions}
    starts_at = {}
    for mname, before, emitted in expansions:
        if emitted:
            starts_at.setdefault(before * 2 * w, set()).add(mname.split('.')[-1])
    always_emits = {}
    silent = {mname.split('.')[-1] for mname, before, emitted in expansions if not emitted}
    for mname, before, emitted in expansions:
        if mname.split('.')[-1] not in silent:
            always_emits.setdefault(mname.split('.')[-1], set()).add(before * 2 * w)
    for tname, addr in table.items():
        if any(st[0] in ('pad', 'wflip') for st in prim):
            break  # addresses are not 2w x (ops before) in programs with pads / wflips
        if not tname.endswith(':start:'):
            continue
        toks = [t for t in re.findall(r'[A-Za-z_][A-Za-z_0-9]*', tname[:-len(':start:')]) if t in {m.split('.')[-1] for m in macro_names}]
        if toks and starts_at.get(addr) and toks[-1] not in starts_at[addr]:
            bad('an expansion-path entry sits at a statement of another macro', {'address': addr, 'expansions starting there': sorted(starts_at.get(addr, []))}, tname)
            break
        # ... and when every expansion of the macro it names emits something, it sits where one of them starts (not, say, at the end of the code)
        if toks and toks[-1] in always_emits and addr not in always_emits[toks[-1]]:
            bad('an expansion-path entry does not sit at the start of an expansion of the macro it names', {'expansions of it start at': sorted(always_emits[toks[-1]])},
                {'entry': tname, 'address': addr})
            break
    # (2) round trip
    p2 = wd / 'roundtrip.fjd'
    save_debugging_labels(p2, table)
    if load_debugging_labels(p2) != table:
        bad('label table changed by save/load', 'identical', 'different')
    # (3) breakpoints
    names = list(table)
    with quiet():
        for n in names:
            try:
                got = set(get_breakpoint_handler(dbg, None, {n}, None).breakpoints)
            except Exception as e:  # noqa
                got = f'{type(e).__name__}: {e}'
            stats['breakpoint_queries'] += 1
            if got != {table[n]}:
                bad('exact-label breakpoint resolves wrongly', {n: table[n]}, sorted(got) if isinstance(got, set) else got)
                break
        for frag in fragments(table):
            try:
                h = get_breakpoint_handler(dbg, None, None, {frag})
                got = set(h.breakpoints)
            except Exception as e:  # noqa
                got = f'{type(e).__name__}: {e}'
            stats['breakpoint_queries'] += 1
            exp = {a for n, a in table.items() if frag in n}
            if got != exp:
                bad('substring breakpoint resolves wrongly', {'substring': frag, 'addresses': sorted(exp)},
                    sorted(got) if isinstance(got, set) else got)
                break
        # exact-label sets that mix existing labels with labels the table does not have (sorting before, between and after them):
        # exactly the existing ones resolve, whatever the order
        srt = sorted(names)
        picks = list(dict.fromkeys([srt[0], srt[len(srt) // 2], srt[-1]]))
        for missing in (('!none',), ('mmm_none',), ('~none',), ('!none', 'Zz', '~none'), (srt[0] + '_', srt[-1][:-1] or 'q')):
            missing = tuple(m for m in missing if m not in table)
            for k in (1, 2, 3):
                for sub in itertools.combinations(picks, k):
                    try:
                        got = set(get_breakpoint_handler(dbg, None, set(sub) | set(missing), None).breakpoints)
                    except Exception as e:  # noqa
                        got = f'{type(e).__name__}: {e}'
                    stats['breakpoint_queries'] += 1
                    exp = {table[n] for n in sub}
                    if got != exp:
                        bad('exact-label breakpoints next to unknown labels resolve wrongly', {'labels': sorted(sub), 'unknown': list(missing), 'addresses': sorted(exp)},
                            sorted(got) if isinstance(got, set) else got)
                        break
        # substring sets in which one substring contains another: the union of the matches, nothing is dropped
        for nm in picks:
            long_ = nm[:max(2, len(nm) // 2 + 1)]
            for short in {long_[:max(1, len(long_) // 2)], long_[-max(1, len(long_) // 2):], nm[-1:]}:
                sub = {long_, short, nm}
                try:
                    got = set(get_breakpoint_handler(dbg, None, None, set(sub)).breakpoints)
                except Exception as e:  # noqa
                    got = f'{type(e).__name__}: {e}'
                stats['breakpoint_queries'] += 1
                exp = {a for n2, a in table.items() if any(x in n2 for x in sub)}
                if got != exp:
                    bad('nested substring breakpoints resolve wrongly', {'substrings': sorted(sub), 'addresses': sorted(exp)}, sorted(got) if isinstance(got, set) else got)
                    break
        # combined sets (two substrings, an address, an unknown label)
        fr = fragments(table)[:3]
        if len(fr) >= 2:
            exp = {12345 * w, table[names[0]]} | {a for n, a in table.items() if any(f in n for f in fr[:2])}
            stats['breakpoint_queries'] += 1
            try:
                h = get_breakpoint_handler(dbg, {12345 * w}, {names[0], 'no_such_label'}, set(fr[:2]))
                got = set(h.breakpoints)
            except Exception as e:  # noqa
                got = f'{type(e).__name__}: {e}'
            if got != exp:
                bad('combined breakpoint sets resolve wrongly', sorted(exp), sorted(got) if isinstance(got, set) else got)
        try:
            h = get_breakpoint_handler(dbg, None, None, None)
            same = h.label_to_address == table
        except Exception as e:  # noqa
            same = False
        if not same:
            bad('handler label table differs from the saved one', 'identical', 'different')


# ------------------------------------------------------------------ histories over one debug file (the table loaded is the table last written)
SPELLINGS = ('abs', 'str', 'rel', 'dotdot', 'link')
HIST_OPS = [('save', sp) for sp in SPELLINGS] + [('assemble', 'abs'), ('assemble', 'rel'), ('replace', None), ('copy', None)] + \
           [('load', sp) for sp in SPELLINGS] + [('handler', 'abs'), ('handler', 'rel')]


HIST_NAME = re.compile(r'^(lab\d+|common|ns\.m\d+---x)$')


def spell(d, sp):
    """five spellings of the same file d/t.fjd (the process's cwd is d)"""
    from pathlib import Path
    return {'abs': d / 't.fjd', 'str': str(d / 't.fjd'), 'rel': Path('t.fjd'), 'dotdot': d / 'sub' / '..' / 't.fjd', 'link': d / 'ln.fjd'}[sp]


def run_history(seq, d, w=64):
    """-> list of (step, expected table, observed) for loads that do not return the table last written"""
    import os
    import shutil
    from flipjump.utils.functions import save_debugging_labels, load_debugging_labels
    from flipjump.interpreter.debugging.breakpoints import get_breakpoint_handler
    from fjv.asm import assemble_text, quiet
    d.mkdir(parents=True, exist_ok=True)
    (d / 'sub').mkdir(exist_ok=True)
    os.chdir(d)
    if not (d / 'ln.fjd').is_symlink():
        os.symlink(d / 't.fjd', d / 'ln.fjd')
    current, from_assembler = None, False
    problems = []
    for k, oi in enumerate(seq):
        op, sp = HIST_OPS[oi]
        table = {f'lab{k}': (k + 1) * 2 * w, 'common': (k + 2) * 2 * w, f'ns.m{k}---x': 2 * w * (10 + k)}
        if op == 'save':
            save_debugging_labels(spell(d, sp), table)
            current, from_assembler = table, False
        elif op == 'assemble':
            text = ';\n' * (k + 1) + f'lab{k}:\n;lab{k}\ncommon:\n;\n'
            assemble_text(text, d / 'prog.fjm', d, w=w, version=1, use_stl=False, werror=False, debug_path=spell(d, sp))
            current, from_assembler = {f'lab{k}': (k + 1) * 2 * w, 'common': (k + 2) * 2 * w}, True
        elif op in ('replace', 'copy'):
            save_debugging_labels(d / 'other.fjd', table)
            (os.replace if op == 'replace' else shutil.copyfile)(d / 'other.fjd', d / 't.fjd')
            current, from_assembler = table, False
        else:
            if current is None:
                continue
            try:
                if op == 'load':
                    got = load_debugging_labels(spell(d, sp))
                else:
                    with quiet():
                        got = get_breakpoint_handler(spell(d, sp), None, None, None).label_to_address
            except Exception as e:  # noqa
                got = f'{type(e).__name__}: {e}'
            if isinstance(got, dict) and from_assembler:
                # the assembler may add entries of its own (':start:'-style paths, per-segment labels): only the names this family ever writes
                # matter - the current ones must be there with their addresses, the ones of earlier steps must be gone
                got = {n: a for n, a in got.items() if HIST_NAME.match(n)}
            if got != current:
                problems.append((k, current, got))
    return problems


def work_histories(task):
    from fjv.enginecheck import scratch
    _, depth, first = task
    sieve = Sieve(PROP)
    stats = {'programs': 0, 'labels': 0, 'instances': 0, 'breakpoint_queries': 0, 'histories': 0, 'history_loads': 0}
    wd = scratch()
    n = len(HIST_OPS)
    for dd in range(1, depth):
        for rest in itertools.product(range(n), repeat=dd):
            seq = (first,) + rest
            kinds = [HIST_OPS[i][0] for i in seq]
            if kinds[-1] not in ('load', 'handler') or kinds[0] in ('load', 'handler'):
                continue
            stats['histories'] += 1
            stats['history_loads'] += sum(1 for x in kinds if x in ('load', 'handler'))
            for k, exp, got in run_history(seq, wd / ('h' + '_'.join(map(str, seq)))):
                sieve.add({'kind': 'a load does not return the table last written to the file', 'class': f'history {kinds}',
                           'case': {'history': [list(HIST_OPS[i]) for i in seq], 'history_idx': list(seq), 'step': k},
                           'expected': exp, 'observed': got,
                           'summary': f'history {[HIST_OPS[i] for i in seq]}: step {k} returned {str(got)[:80]} instead of {str(exp)[:80]}'})
    return stats, sieve.result(), None


# ------------------------------------------------------------------ label tables of stl programs after other assemblies of the same process
SCHEMES = ('default', 'lib', 'reversed', 'user-renamed')
STL_PROGRAM = 'stl.startup\nstl.output "Hi"\nhex.print_uint 2, v, 1, 0\nstl.loop\nv: hex.vec 2, 0x5a\n'


def assemble_scheme(scheme, w, wd, tag):
    """assemble STL_PROGRAM next to the stl with the given short-name scheme -> label table"""
    from flipjump.assembler import assembler
    from flipjump.fjm.fjm_consts import FJMVersion
    from flipjump.fjm.fjm_writer import Writer
    from flipjump.utils.functions import get_file_tuples, load_debugging_labels
    from fjv.asm import quiet
    src = wd / f'{tag}.fj'
    src.write_text(STL_PROGRAM)
    tuples = get_file_tuples([str(src.absolute())], no_stl=False)
    n = len(tuples) - 1
    if scheme == 'lib':
        tuples = [(f'zzlib{i}', t[1]) for i, t in enumerate(tuples[:n])] + tuples[n:]
    elif scheme == 'reversed':
        names = [t[0] for t in tuples[:n]][::-1]
        tuples = [(nm, t[1]) for nm, t in zip(names, tuples[:n])] + tuples[n:]
    elif scheme == 'user-renamed':
        tuples = tuples[:n] + [('u9', tuples[n][1])]
    out, dbg = wd / f'{tag}.fjm', wd / f'{tag}.fjd'
    with quiet():
        assembler.assemble(tuples, w, Writer(out, w, FJMVersion(1)), debugging_file_path=dbg, print_time=False)
    return load_debugging_labels(dbg)


def work_stl_tables(task):
    from fjv.enginecheck import scratch
    _, w, history = task
    wd = scratch()
    table = None
    for k, scheme in enumerate(history):
        table = assemble_scheme(scheme, w, wd, f't{k}')
    return ('stl-table', w, history, table)


def work_big_table(task):
    """a label table whose json is larger than every compression-dictionary threshold below 16 MiB (150 000 long macro-local labels),
    written next to a version-3 .fjm with the heaviest lzma preset: it loads back complete, every label at its address."""
    from fjv.enginecheck import scratch
    from flipjump.assembler import assembler
    from flipjump.fjm.fjm_consts import FJMVersion
    from flipjump.fjm.fjm_writer import Writer
    from flipjump.utils.functions import get_file_tuples, load_debugging_labels
    from fjv.asm import quiet
    _, w, preset, n = task
    sieve = Sieve(PROP)
    stats = {'programs': 1, 'labels': 0, 'instances': 0, 'breakpoint_queries': 0}
    wd = scratch()
    long_name = 'a_rather_long_local_label_name_that_makes_the_debug_table_grow_quickly'
    src = wd / 'big.fj'
    src.write_text(f'def m @ {long_name} {{\n  {long_name}:\n  ;\n}}\nrep({n}, i) m\n')
    out, dbg = wd / 'big.fjm', wd / 'big.fjd'
    case = {'w': w, 'preset': preset, 'labels': n, 'skeleton': None}
    try:
        with quiet():
            assembler.assemble(get_file_tuples([str(src)], no_stl=True), w, Writer(out, w, FJMVersion(3), lzma_preset=preset), debugging_file_path=dbg, print_time=False)
        table = load_debugging_labels(dbg)
    except Exception as e:  # noqa
        sieve.add({'kind': 'a big label table does not survive the save / load round trip', 'class': 'big table', 'case': case, 'expected': f'{n} labels',
                   'observed': f'{type(e).__name__}: {str(e)[:120]}', 'summary': f'w={w} preset={preset}: the table of {n} labels cannot be written / loaded: {type(e).__name__}'})
        return stats, sieve.result(), None
    stats['labels'] = len(table)
    mine = sorted(a for nm, a in table.items() if nm.endswith(long_name))
    if mine != [i * 2 * w for i in range(n)]:
        sieve.add({'kind': 'a big label table does not survive the save / load round trip', 'class': 'big table', 'case': case, 'expected': f'{n} labels at 0, 2w, 4w, ...',
                   'observed': f'{len(mine)} labels, first {mine[:3]}', 'summary': f'w={w} preset={preset}: {len(mine)} of {n} labels came back'})
    stats['instances'] = len(mine)
    return stats, sieve.result(), None


def work_internal_names(task):
    """source labels spelled like the names the assembler makes up for itself (the per-segment `_.wflip_area_start_<k>` labels): such a label
    is either refused with a diagnostic or it is in the table - and in the image - at the address of the statement it precedes."""
    from fjv.enginecheck import scratch
    from fjv.asm import assemble_text
    from flipjump.fjm.fjm_reader import Reader
    from flipjump.utils.exceptions import FlipJumpException
    from flipjump.utils.functions import load_debugging_labels
    from flipjump.interpreter.debugging.breakpoints import get_breakpoint_handler
    from fjv.asm import quiet
    _, w = task
    sieve = Sieve(PROP)
    stats = {'programs': 0, 'labels': 0, 'instances': 0, 'breakpoint_queries': 0}
    wd = scratch()
    for nseg, k, where in itertools.product((0, 1, 2), (0, 1, 2, 3), ('first', 'last')):
        name = f'_.wflip_area_start_{k}'
        decl = f'ns _ {{\nwflip_area_start_{k}:\n}}\n'
        segs = [f'segment {(j + 1) * 64}*w\n;\n' for j in range(nseg)]
        if where == 'first':
            text, addr = f';{name}\n' + decl + ';\n' + ''.join(segs), 2 * w
        else:
            # declared in the last segment (after its only op)
            text = f';{name}\n;\n' + ''.join(segs) + decl + ';\n'
            addr = (nseg * 64 * w + 2 * w) if nseg else 4 * w
        out, dbg = wd / 'in.fjm', wd / 'in.fjd'
        stats['programs'] += 1
        try:
            assemble_text(text, out, wd, w=w, version=1, use_stl=False, werror=False, debug_path=dbg)
        except FlipJumpException:
            continue   # diagnosed: fine
        except Exception as e:  # noqa
            sieve.add({'kind': 'a label spelled like an assembler-internal name: raw failure', 'class': 'internal names raw', 'case': {'w': w, 'text': text},
                       'expected': 'a diagnostic or a table entry', 'observed': f'{type(e).__name__}: {e}', 'summary': f'w={w} label {name} ({nseg} segment statements): {type(e).__name__}'})
            continue
        table = load_debugging_labels(dbg)
        stats['labels'] += len(table)
        jump0 = Reader(out).memory.get(1, 0)
        with quiet():
            bp = sorted(get_breakpoint_handler(dbg, None, {name}, None).breakpoints)
        stats['breakpoint_queries'] += 1
        got = {'table': table.get(name), 'jump word of op 0': jump0, 'breakpoint': bp}
        exp = {'table': addr, 'jump word of op 0': addr, 'breakpoint': [addr]}
        if got != exp:
            sieve.add({'kind': 'a source label spelled like an assembler-internal name is accepted but not at its statement', 'class': 'internal names address',
                       'case': {'w': w, 'text': text, 'label': name, 'segment_statements': nseg, 'declared_in': where}, 'expected': exp, 'observed': got,
                       'summary': f'w={w} label {name} declared in the {where} segment of {nseg + 1}: {got} instead of {exp}'})
    return stats, sieve.result(), None


def work(task):
    from fjv.enginecheck import scratch
    from fjv import gen_macros
    kind = task[0]
    if kind == 'big-table':
        return work_big_table(task)
    if kind == 'stl-tables':
        return work_stl_tables(task)
    if kind == 'histories':
        return work_histories(task)
    if kind == 'internal-names':
        return work_internal_names(task)
    sieve = Sieve(PROP)
    stats = {'programs': 0, 'labels': 0, 'instances': 0, 'breakpoint_queries': 0}
    wd = scratch()
    if kind == 'synthetic':
        from flipjump.utils.functions import save_debugging_labels, load_debugging_labels
        tables = [{}, {'a': 0}, {'x---y': 1 << 70, 'ü---λ': 5, 'a(1)---b:rep0:c{2}': 128, ' ': 3, 'q"\\': 7, '': 9},
                  {f'n{i}---' * 3 + 'z': i * 128 for i in range(2000)}]
        for t in tables:
            p = wd / 'syn.fjd'
            save_debugging_labels(p, t)
            stats['programs'] += 1
            stats['labels'] += len(t)
            if load_debugging_labels(p) != t:
                sieve.add({'kind': 'label table changed by save/load', 'case': {'table_size': len(t), 'first': list(t.items())[:3]},
                           'expected': 'identical', 'observed': 'different', 'summary': 'synthetic table changed by save/load'})
        return stats, sieve.result(), None
    _, tier, w, part, nparts = task
    sample = None
    for i, (name, slots, program, collisions) in enumerate(gen_macros.programs()):
        if i % nparts != part:
            continue
        for files in (1, 2, 'same-line'):
            check_program(name, slots, program, w, wd, sieve, stats, files)
        if sample is None and collisions >= 2:
            sample = {'skeleton': name, 'slots': list(slots), 'w': w}
    return stats, sieve.result(), sample


def replay(args):
    from fjv.enginecheck import scratch
    from fjv import gen_macros
    rec = load_replay(args.replay)
    c = rec['case']
    if 'program' in c and 'history' in c:
        got = {t[2]: t[3] for t in pmap(work, [('stl-tables', c['w'], tuple(c['history'])), ('stl-tables', c['w'], tuple(c['history'][-1:]))], 2, on_crash='raise')}
        if got[tuple(c['history'])] != got[tuple(c['history'][-1:])]:
            print('PROBLEM: the table after', c['history'], 'differs from the fresh one')
            print(f'VIOLATION property={PROP} replay={args.replay}')
            return 1
        print('replay: ok')
        return 0
    if 'history_idx' in c:
        def one(_):
            return run_history(tuple(c['history_idx']), scratch() / 'replay')
        probs = list(pmap(one, [0], 1, on_crash='raise'))[0]
        for k, exp, got in probs:
            print('PROBLEM step', k, 'expected', exp, 'observed', got)
        if probs:
            print(f'VIOLATION property={PROP} replay={args.replay}')
            return 1
        print('replay: ok')
        return 0
    if 'skeleton' not in c:
        print('synthetic case; re-run the check')
        return 1
    sk = [s for s in gen_macros.SKELETONS if s[0] == c['skeleton']][0]
    sieve = Sieve(PROP)
    stats = {'programs': 0, 'labels': 0, 'instances': 0, 'breakpoint_queries': 0}
    check_program(c['skeleton'], tuple(c['slots']), sk[3](tuple(c['slots'])), c['w'], scratch(), sieve, stats, c['files'])
    print(c['text'])
    for r in sieve.records:
        print('PROBLEM', r['summary'], '\n  expected', r['expected'], '\n  observed', r['observed'])
    if sieve.records:
        print(f'VIOLATION property={PROP} replay={args.replay}')
        return 1
    print('replay: ok')
    return 0


def main():
    args = parse_args(PROP)
    bind('plain')
    if args.replay:
        return replay(args)
    run = Run(PROP, 'exploration', args)
    widths = (16, 32, 64) if args.tier == 'thorough' else (16, 64)
    tasks = [('synthetic',)] + [('internal-names', w) for w in widths] + [('family', args.tier, w, p, 16) for w in widths for p in range(16)]
    hist_depth = 5 if args.tier == 'thorough' else 4
    tasks += [('histories', hist_depth, f) for f in range(len(HIST_OPS)) if HIST_OPS[f][0] not in ('load', 'handler')]
    total, samples = {}, []
    tasks = [('big-table', 64, 9, 150000)] + ([('big-table', 32, 7, 150000)] if args.tier == 'thorough' else []) + tasks
    stl_widths = (64, 32) if args.tier == 'thorough' else (64,)
    hist_len = 3 if args.tier == 'thorough' else 2
    for w in stl_widths:
        for L in range(1, hist_len + 1):
            tasks += [('stl-tables', w, h) for h in itertools.product(SCHEMES, repeat=L)]
    stl_tables = {}
    for item in pmap(work, tasks, args.jobs):
        if item[0] == 'stl-table':
            stl_tables[(item[1], item[2])] = item[3]
            continue
        stats, res, sample = item
        for k, v in stats.items():
            total[k] = total.get(k, 0) + v
        run.merge(res)
        if sample and len(samples) < 3:
            samples.append(sample)
    # the table of an stl program names its labels by ITS OWN assembly (file short names, expansion paths): equal to the fresh-process one
    for (w, history), table in sorted(stl_tables.items()):
        fresh = stl_tables[(w, history[-1:])]
        total['stl_table_histories'] = total.get('stl_table_histories', 0) + 1
        if len(history) > 1 and table != fresh:
            only_h = sorted(set(table) - set(fresh))[:3]
            only_f = sorted(set(fresh) - set(table))[:3]
            moved = [n for n in table if n in fresh and table[n] != fresh[n]][:3]
            run.report({'kind': 'label table of an stl program depends on earlier assemblies of the process', 'class': f'stl table after {history[:-1]}',
                        'case': {'w': w, 'history': list(history), 'program': STL_PROGRAM}, 'expected': {'names only in the fresh table': only_f},
                        'observed': {'names only after the history': only_h, 'moved': moved},
                        'summary': f'w={w} short-name schemes {list(history)}: the last table differs from the one a fresh process writes ({len(set(table) ^ set(fresh))} names)'})
    vac = [k for k in ('instances', 'breakpoint_queries') if total.get(k, 0) < 1000]
    if vac:
        print(f'CHECK-INTERNAL-ERROR vacuous: {vac}', file=sys.stderr)
    cov = {
        'evaluations': total.get('programs', 0),
        'distinct_nontrivial': total.get('instances', 0),
        'rule': 'evaluations = (program, width, file split) label tables checked; distinct_nontrivial = label instances of the inlined programs '
                '(distinct (program, expansion path, source label) triples) matched against the saved table',
        'samples': samples or [{'note': 'none'}],
        'table_entries_seen': total.get('labels', 0),
        'breakpoint_resolutions_checked': total.get('breakpoint_queries', 0),
        'stl_table_histories': total.get('stl_table_histories', 0), 'file_histories': total.get('histories', 0), 'file_history_loads_checked': total.get('history_loads', 0),
        'bounds': {'programs': 'the C03 skeleton family x all identifier assignments, 1 and 2 files', 'widths': list(widths),
                   'file_histories': f'every sequence of <= {hist_depth} operations over {len(HIST_OPS)} (save / assemble / replace / copy / load / handler x 5 spellings of one path) that starts with a write and ends with a read'},
        'exhaustive': not vac,
    }
    code = run.finish(cov, assumptions=['the naming format is not pinned: only exact names of top-level labels, the suffix of macro-local names, '
                                        'uniqueness and addresses', 'R4 gives the label instances; addresses come from assembling the inlined program'])
    return 2 if vac and not code else code


if __name__ == '__main__':
    main_guard(main)
