"""C14 - every assembly failure is a specific library diagnostic.

Bounded-exhaustive over (a) templates: every error class x every evaluation stage at which it can
surface x w x fjm version, and (b) every single-token deletion / duplication / substitution (by
each token of a 40-token alphabet) of seed programs (with and without the stl), and (c) every sequence of
<= 3 (thorough 4) primitive statements over a 16-statement alphabet (ops, pad, reserve, wflip, segment, label), and
(d) 45 sources with malformed / valid tokens after runs of 30 / 60 / 120 plain characters, each assembled in its own child
process that is killed after 20 s (a stall inside C code - a regular expression - cannot be interrupted from within).
Oracle: the outcome is success or a FlipJumpException subclass whose message is not the generic
"Unknown exception ... please report this bug" (and, for templates, names the offending
construct); it finishes under the watchdog; after a failure the output path does not exist or
does not load as a runnable program.
"""
import sys

from fjv.bind import bind
from fjv.runner import Run, Sieve, parse_args, pmap, load_replay, main_guard, watchdog, Watchdog

PROP = 'C14'

# ------------------------------------------------------------------ (a) templates
ARITH = [('div0', '1/{z}', '/'), ('mod0', '1%{z}', '%'), ('shl-neg', '1<<({z}-1)', '<<'), ('shr-neg', '1>>({z}-1)', '>>'),
         ('pow-neg', '2**({z}-1)', '**'),
         # the same faults with an operand of 20 000 bits (more decimal digits than python converts to a string by default: finding F25)
         ('div0-big', '(1<<20000)/{z}', '/'), ('mod0-big', '(1<<20000)%{z}', '%'), ('shl-neg-big', '1<<({z}-(1<<20000))', '<<')]


def templates():
    """(name, text, must_fail, needle) - `needle` must appear in the diagnostic (None: not checked)."""
    T = []
    for name, e, opname in ARITH:
        lit = e.format(z='0')
        T.append((f'{name}@parse-fold', f';{lit}\n', True, None))
        T.append((f'{name}@const-def', f'c = {lit}\n;c\n', True, None))
        T.append((f'{name}@const-use', 'z = 0\n;' + e.format(z='z') + '\n', True, None))
        T.append((f'{name}@macro-arg', 'def m x {\n;' + e.format(z='x') + '\n}\nm 0\n', True, None))
        T.append((f'{name}@macro-arg-expr', 'def m x {\n;x\n}\nm ' + lit + '\n', True, None))
        T.append((f'{name}@rep-count', 'def m x {\n;x\n}\nrep(' + lit + ', i) m i\n', True, None))
        T.append((f'{name}@rep-iter', 'def m x {\n;x\n}\nrep(2, i) m ' + e.format(z='i') + '\n', True, None))
        T.append((f'{name}@pad', f'pad {lit}\n;\n', True, None))
        T.append((f'{name}@segment', f';\nsegment {lit}\n;\n', True, None))
        T.append((f'{name}@reserve', f';\nreserve {lit}\n', True, None))
        T.append((f'{name}@label-late', 'L:\n;' + e.format(z='(L-L)') + '\n', True, None))
        T.append((f'{name}@label-late-flip', 'L:\n' + e.format(z='(L-L)') + ';\n', True, None))
        T.append((f'{name}@wflip-value', 'L:\nwflip L, ' + e.format(z='(L-L)') + '\n', True, None))
        T.append((f'{name}@wflip-return', 'L:\nwflip L, 3, ' + e.format(z='(L-L)') + '\n', True, None))
        T.append((f'{name}@segment-label', 'L:\n;\nsegment ' + e.format(z='(L-L)') + '\n;\n', True, None))
        T.append((f'{name}@dollar', ';' + e.format(z='($-$)') + '\n', True, None))
    T += [
        ('wflip-value-20000-bits', 'x:\nwflip x, 1<<20000\n', True, None),
        ('empty-segment-at-a-20000-bit-address', ';0\nsegment 1<<20000\nx:\n', True, None),
        ('empty-segment-above-2^w', ';0\nsegment (1<<w)+2*w\nx:\n', True, None),
        ('reserve-negative-20000-bits', ';\nreserve 0-(1<<20000)*w\n', True, None),
        ('pad-negative-20000-bits', ';\npad 0-(1<<20000)\n', True, None),
        ('decimal-literal-5000-digits', ';' + '9' * 5000 + '\n', True, None),
        ('syntax-error-at-a-20000-bit-literal', '; 0x' + 'f' * 5000 + ' 5\n;5 0x' + 'f' * 5000 + '\n', True, None),
        ('word-20000-bits', 'x:\n;x+(1<<20000)\n', True, None),
        ('lex-bad-char', ';\n`\n', True, None),
        ('lex-bad-escape', ';"\\q"\n', True, None),
        ('lex-unterminated-string', ';"abc\n', True, None),
        ('lex-bad-hex', ';0xZZ\n', True, None),
        ('syntax-missing-brace', 'def m {\n;\n', True, None),
        ('syntax-stray-token', ';\n) ;\n', True, None),
        ('syntax-two-statements', '; ; ;\n', True, None),
        ('syntax-chain-compare', ';1<2<3\n', True, None),
        ('macro-duplicate', 'def dupmac {\n;\n}\ndef dupmac {\n;\n}\ndupmac\n', True, 'dupmac'),
        ('macro-unknown', ';\nnosuchmacro 1, 2\n', True, 'nosuchmacro'),
        ('macro-arity', 'def aritymac x {\n;x\n}\naritymac 1, 2\n', True, 'aritymac'),
        # a wrong number of arguments for a name with several overloads: below / between / above them, also through a rep
        ('macro-arity-between-two-overloads', 'def ovmac x {\n;x\n}\ndef ovmac x, y, z {\n;x\n}\novmac 1, 2\n', True, 'ovmac'),
        ('macro-arity-above-two-overloads', 'def ovmac x {\n;x\n}\ndef ovmac x, y {\n;x\n}\novmac 1, 2, 3, 4\n', True, 'ovmac'),
        ('macro-arity-below-two-overloads', 'def ovmac x, y {\n;x\n}\ndef ovmac x, y, z, t {\n;x\n}\novmac\n', True, 'ovmac'),
        ('macro-arity-between-three-overloads', 'def ovmac {\n;\n}\ndef ovmac x, y {\n;x\n}\ndef ovmac x, y, z, t {\n;x\n}\novmac 1, 2, 3\n', True, 'ovmac'),
        ('rep-arity-between-two-overloads', 'def ovmac x {\n;x\n}\ndef ovmac x, y, z {\n;x\n}\nrep(2, i) ovmac i, i\n', True, 'ovmac'),

        ('macro-param-twice', 'def m xx, xx {\n;xx\n}\nm 1, 2\n', True, 'xx'),
        ('macro-param-is-const', 'kk = 3\ndef m kk {\n;kk\n}\nm 1\n', True, 'kk'),
        ('macro-recursion', 'def recmac {\nrecmac\n}\nrecmac\n', True, 'recmac'),
        ('macro-mutual-recursion', 'def ma {\nmb\n}\ndef mb {\nma\n}\nma\n', True, None),
        ('unknown-macro-inside-label-counted-rep', 'la:\n;\n;\nlb:\ndef body {\nnosuchinner 1\n}\nrep((lb-la)/(2*w), i) body\n', True, 'nosuchinner'),
        ('wrong-arity-inside-label-counted-rep', 'la:\n;\nlb:\ndef two x, y {\n;x\n}\ndef body {\ntwo 1\n}\nrep((lb-la)/(2*w), i) body\n', True, 'two'),
        ('duplicate-label-inside-label-counted-rep', 'la:\n;\n;\nlb:\ndef body {\nduplab:\n;\n}\nrep((lb-la)/(2*w), i) body\n', True, 'duplab'),
        ('recursion-inside-label-counted-rep', 'la:\n;\nlb:\ndef recin {\nrecin\n}\ndef body {\nrecin\n}\nrep((lb-la)/(2*w), i) body\n', True, 'recin'),
        ('chain-of-850-macros', ''.join(f'def c{k} {{\nc{k + 1}\n}}\n' for k in range(850)) + 'def c850 {\n;\n}\nc0\n', False, None),
        ('chain-of-899-macros', ''.join(f'def c{k} {{\nc{k + 1}\n}}\n' for k in range(899)) + 'def c899 {\n;\n}\nc0\n', False, None),
        ('chain-of-901-macros', ''.join(f'def c{k} {{\nc{k + 1}\n}}\n' for k in range(901)) + 'def c901 {\n;\n}\nc0\n', True, 'macro-expansion'),
        ('guarded-recursion-850-deep', 'def d n {\nrep(n>0, i) d n-1\n}\nd 850\n;\n', False, None),
        ('guarded-recursion-899-deep', 'def d n {\nrep(n>0, i) d n-1\n}\nd 899\n;\n', False, None),
        ('guarded-recursion-905-deep', 'def d n {\nrep(n>0, i) d n-1\n}\nd 905\n;\n', True, 'macro-expansion'),
        ('duplicate-extern-label-by-two-expansions', 'def m > dupx {\ndupx:\n;\n}\nm\nm\n', True, 'dupx'),
        ('duplicate-label-through-a-parameter', 'def m lbl {\nlbl:\n;\n}\nm spot\nm spot\n', True, 'spot'),
        ('duplicate-label-through-a-parameter-in-rep', 'def m lbl {\nlbl:\n;\n}\nrep(2, i) m spot\n', True, 'spot'),
        ('duplicate-local-label-in-one-macro', 'def m @ loc {\nloc:\n;loc\nloc:\n;\n}\nm\n', True, 'loc'),
        ('duplicate-local-label-through-a-callee', 'def decl l {\nl:\n;\n}\ndef m @ loc {\nloc:\n;loc\ndecl loc\n}\nm\n', True, 'loc'),
        ('user-label-named-like-the-wflip-area-label', ';\nsegment 64*w\nns _ {\nwflip_area_start_0:\n;\n}\n', None, None),
        ('escape-0-in-char', ';\'\\0\' & 0xff\n', False, None),
        ('escape-0-in-string', ';"a\\0b" & 0xff\n', False, None),
        ('escape-a-in-char', ';\'\\a\' & 0xff\n', False, None),
        ('escape-a-in-string', ';"a\\ab" & 0xff\n', False, None),
        ('escape-b-in-char', ';\'\\b\' & 0xff\n', False, None),
        ('escape-b-in-string', ';"a\\bb" & 0xff\n', False, None),
        ('escape-e-in-char', ';\'\\e\' & 0xff\n', False, None),
        ('escape-e-in-string', ';"a\\eb" & 0xff\n', False, None),
        ('escape-f-in-char', ';\'\\f\' & 0xff\n', False, None),
        ('escape-f-in-string', ';"a\\fb" & 0xff\n', False, None),
        ('escape-n-in-char', ';\'\\n\' & 0xff\n', False, None),
        ('escape-n-in-string', ';"a\\nb" & 0xff\n', False, None),
        ('escape-r-in-char', ';\'\\r\' & 0xff\n', False, None),
        ('escape-r-in-string', ';"a\\rb" & 0xff\n', False, None),
        ('escape-t-in-char', ';\'\\t\' & 0xff\n', False, None),
        ('escape-t-in-string', ';"a\\tb" & 0xff\n', False, None),
        ('escape-v-in-char', ';\'\\v\' & 0xff\n', False, None),
        ('escape-v-in-string', ';"a\\vb" & 0xff\n', False, None),
        ('escape-backslash-in-char', ';\'\\\\\' & 0xff\n', False, None),
        ('escape-backslash-in-string', ';"a\\\\b" & 0xff\n', False, None),
        ('escape-quote-in-char', ';\'\\\'\' & 0xff\n', False, None),
        ('escape-quote-in-string', ';"a\\\'b" & 0xff\n', False, None),
        ('escape-dquote-in-char', ';\'\\\"\' & 0xff\n', False, None),
        ('escape-dquote-in-string', ';"a\\\"b" & 0xff\n', False, None),
        ('escape-question-in-char', ';\'\\?\' & 0xff\n', False, None),
        ('escape-question-in-string', ';"a\\?b" & 0xff\n', False, None),
        ('escape-x41-in-char', ';\'\\x41\' & 0xff\n', False, None),
        ('escape-x41-in-string', ';"a\\x41b" & 0xff\n', False, None),
        ('escape-X41-in-char', ';\'\\X41\' & 0xff\n', False, None),
        ('escape-X41-in-string', ';"a\\X41b" & 0xff\n', False, None),
        ('escape-xfF-in-char', ';\'\\xfF\' & 0xff\n', False, None),
        ('escape-xfF-in-string', ';"a\\xfFb" & 0xff\n', False, None),
        ('escape-XAb-in-char', ';\'\\XAb\' & 0xff\n', False, None),
        ('escape-XAb-in-string', ';"a\\XAbb" & 0xff\n', False, None),
        ('bad-escape-q-in-char', ';\'\\q\'\n', True, None),
        ('bad-hex-escape-one-digit', ';\'\\x4\'\n', True, None),
        ('runaway-recursion-with-a-growing-label-argument', 'lbl:\n;\ndef f x {\nf x+1\n}\nf lbl\n', True, 'macro-expansion'),
        ('runaway-recursion-with-a-growing-label-argument-in-rep', 'lbl:\n;\ndef f x {\nrep(1, i) f x+i+2\n}\nf lbl\n', True, None),  # the depth limit or the depth of the grown expression: either diagnostic is true
        ('macro-recursion-through-rep', 'def recrep {\nrep(1, i) recrep\n}\nrecrep\n', True, 'recrep'),
        ('macro-recursion-through-rep-with-arg', 'def recarg x {\nrep(2, i) recarg x+i\n}\nrecarg 0\n', True, 'recarg'),
        ('macro-mutual-recursion-through-rep', 'def ma {\nmb\n}\ndef mb {\nrep(1, i) ma\n}\nma\n', True, None),
        ('macro-recursion-through-nested-reps', 'def ra {\nrep(1, i) rb i\n}\ndef rb x {\nrep(1, j) ra\n}\nra\n', True, None),
        ('macro-recursion-in-namespace', 'ns n {\ndef r {\n.r\n}\n}\nn.r\n', True, None),
        ('macro-segment-inside', 'def m {\nsegment 0\n}\nm\n', True, 'segment'),
        ('macro-reserve-inside', 'def m {\nreserve w\n}\nm\n', True, 'reserve'),
        ('label-duplicate', 'duplab:\n;\nduplab:\n;\n', True, 'duplab'),
        ('label-duplicate-in-rep', 'def m {\nreplab:\n;\n}\ndef n > replab {\nreplab:\n;\n}\nrep(2, i) n\n', True, 'replab'),
        ('label-unknown', ';nosuchlabel\n', True, 'nosuchlabel'),
        ('label-unknown-in-macro-werror', 'def m {\n;badlab\n}\nm\nbadlab:\n', None, None),
        ('label-const-clash', 'clash = 5\nclash:\n;\n', True, 'clash'),
        ('label-w', 'w:\n;\n', True, 'w'),
        ('const-redeclare', 'cc = 1\ncc = 2\n;cc\n', True, 'cc'),
        ('const-from-label', 'L:\ncl = L\n;cl\n', True, None),
        ('pad-zero', ';\npad 0\n;\n', True, 'pad'),
        ('pad-negative', ';\npad 0-1\n;\n', True, 'pad'),
        ('pad-unaligned', ';\nreserve w\npad 2\n;\n', True, 'pad'),
        ('pad-forward-label', 'pad L\nL:\n;\n', True, None),
        ('segment-unaligned', ';\nsegment 1\n;\n', True, 'segment'),
        ('segment-w-aligned-only', ';\nsegment 5*w\n;\n', True, None),
        ('segment-forward-label', ';\nsegment L\n;\nL:\n', True, None),
        ('segment-overlap', ';\n;\nsegment 0\n;\n', True, None),
        ('segment-overlap-partial', ';\n;\n;\nsegment 2*w\n;\n', True, None),
        # every geometry of two overlapping segments (the later one: surrounds the earlier / is inside it / equals it / overlaps its head / its tail)
        ('segment-overlap-later-surrounds', ';\nsegment 6*w\n;\nsegment 4*w\n;\n;\n;\n;\n;\n', True, None),
        ('segment-overlap-later-surrounds-by-reserve', ';\nsegment 6*w\n;\nsegment 4*w\nreserve 10*w\n', True, None),
        ('segment-overlap-later-surrounds-first', ';\nsegment 8*w\n;\nsegment 0\n;\n;\n;\n;\n;\n;\n', True, None),
        ('segment-overlap-later-inside', ';\nsegment 4*w\n;\n;\n;\n;\nsegment 6*w\n;\n', True, None),
        ('segment-overlap-later-equal', ';\nsegment 4*w\n;\n;\nsegment 4*w\n;\n;\n', True, None),
        ('segment-overlap-later-head', ';\nsegment 6*w\n;\n;\nsegment 4*w\n;\n;\n', True, None),
        ('segment-overlap-later-tail', ';\nsegment 4*w\n;\n;\nsegment 6*w\n;\n;\n', True, None),
        ('segment-overlap-three', ';\nsegment 16*w\n;\nsegment 8*w\n;\nsegment 6*w\n;\n;\n;\n', True, None),
        ('segment-out-of-range', ';\nsegment 1<<w\n;\n', True, None),
        ('segment-negative', ';\nsegment 0-2*w\n;\n', True, None),
        ('reserve-unaligned', ';\nreserve 1\n', True, 'reserve'),
        ('reserve-odd-words', ';\nreserve w\n;\n', True, None),
        ('reserve-negative', ';\n;\nreserve 0-2*w\n;\n', True, None),
        ('reserve-too-big', ';\nreserve 1<<w\n', True, None),
        ('value-too-big-jump', ';1<<w\n', True, None),
        ('value-too-big-flip', '1<<w;\n', True, None),
        ('value-negative-jump', ';0-1\n', True, None),
        ('value-negative-flip', '0-1;\n', True, None),
        ('value-string-too-long', ';"abcdefghijklmnopq"\n', None, None),
        ('wflip-value-too-big', 'wflip 0, 1<<w\n', True, None),
        ('wflip-value-negative', 'wflip 0, 0-1\n', True, None),
        ('wflip-address-too-big', 'wflip (1<<w)-1, 3\n', True, None),
        ('wflip-return-too-big', 'wflip 0, 3, 1<<w\n', True, None),
        ('no-first-op', 'segment 2*w\n;\n', True, None),
        ('empty-program', '', True, None),
        ('only-comment', '// nothing\n', True, None),
        ('only-const', 'c = 3\n', True, None),
        ('ns-too-many-dots', 'ns a {\n;...x\n}\n', True, None),
        ('ns-unclosed', 'ns a {\n;\n', True, None),
        ('rep-unknown-macro', 'rep(2, i) nosuchrep i\n', True, 'nosuchrep'),
        ('rep-negative', 'def m x {\n;x\n}\nrep(0-1, i) m i\n;\n', None, None),
        ('rep-label-count', 'def m x {\n;x\n}\nrep(L, i) m i\nL:\n', True, None),
        ('rep-iter-is-const', 'ci = 1\ndef m x {\n;x\n}\nrep(2, ci) m ci\n', None, None),
        ('deep-parens', ';' + '(' * 60 + '1' + ')' * 60 + '\n', None, None),
        ('long-chain', ';' + '+'.join(['1'] * 200) + '\n', None, None),
        ('long-label-chain', 'LL:\n;' + '+'.join(['LL'] * 300) + '\n', None, None),
        ('long-label-chain-600', 'LL:\n;' + '+'.join(['LL'] * 600) + '\n', None, None),
        ('long-label-chain-3000', 'LL:\n;' + '+'.join(['LL'] * 3000) + '\n', None, None),
        ('long-label-chain-in-wflip-3000', 'LL:\nwflip LL, ' + '+'.join(['LL'] * 3000) + '\n', None, None),
        ('long-minus-chain-3000', 'LL:\n;LL' + '-1' * 3000 + '\n', None, None),
        ('too-many-ops-w8', ';\n' * 40, None, None),
    ]
    return T


SPECIAL = [
    ('missing-file', 'missing'),
    ('repeated-file', 'repeated'),
    ('repeated-short-name', 'shortname'),
    ('directory-as-file', 'directory'),
    ('binary-garbage-file', 'garbage'),
    ('empty-file-list', 'nofiles'),
]


# ------------------------------------------------------------------ (b) token mutations
SEEDS = {
    'prim': 'c = 3 * w\nstart :\n; next\nnext :\nc ; start + w\nwflip start , 6 , next\npad 2\n$ ; $ - 2 * w\nsegment 64 * w\nd :\n; d\nreserve 2 * w\n',
    'macro': 'def m a , b @ x < g > e {\nx :\na ; b\ne :\n; g\n}\nns n {\ndef k {\n; .lab\n}\nlab :\n;\n}\ng :\nm 1 , 2\nn.k\nrep ( 2 , i ) m i , e\n',
    'expr': "; ( 1 + 2 ) * 3 - 4 / 2 % 5 << 1 >> 1 & 7 | 8 ^ 9\n; 1 < 2 ? 'a' : \"b\"\n; # 5 + - 3 + ~ 0\n; 1 && 0 || 2 ** 3 == 8 != 0\n",
    'stl': 'stl.startup\nstl.output \'A\'\nx :\nbit.vec 2 , 1\nstl.loop\n',
}
MUT_TOKENS = [';', ':', ',', '(', ')', '{', '}', '=', '+', '-', '*', '/', '%', '<<', '<', '?', '$', 'w', '0', '1', 'x', 'def', 'rep', 'ns',
              'wflip', 'pad', 'segment', 'reserve', '"a"', "'a'", '@', '\n', '#', '..x', 'n.k', '0x', '1/0', '\\', '`', '1<<(0-1)', '>']


def tokenize(text):
    toks = []
    for line in text.split('\n'):
        toks += line.split(' ') if line else []
        toks.append('\n')
    return toks[:-1]


def detok(toks):
    out = []
    for t in toks:
        if t == '\n':
            out.append('\n')
        else:
            if out and out[-1] != '\n':
                out.append(' ')
            out.append(t)
    return ''.join(out)


def mutants(seed_name):
    toks = tokenize(SEEDS[seed_name])
    for i in range(len(toks)):
        yield (seed_name, 'del', i, None), detok(toks[:i] + toks[i + 1:])
        yield (seed_name, 'dup', i, None), detok(toks[:i] + [toks[i]] + toks[i:])
        for r in MUT_TOKENS:
            if r != toks[i]:
                yield (seed_name, 'sub', i, r), detok(toks[:i] + [r] + toks[i + 1:])
        if i + 1 < len(toks):
            yield (seed_name, 'swap', i, None), detok(toks[:i] + [toks[i + 1], toks[i]] + toks[i + 2:])


# ------------------------------------------------------------------ (c) primitive statement sequences
STATEMENTS = [';', 'L+1;L', 'pad 2', 'pad 3', 'pad 4', 'reserve w', 'reserve 2*w', 'reserve 5*w', 'wflip L, 1', 'wflip L, 3', 'wflip L, 6, L',
              'wflip L+w, 0xF5', 'segment 40*w', 'segment 41*w', 'segment 0', 'M:']


def statement_programs(depth):
    import itertools
    for d in range(1, depth + 1):
        for seq in itertools.product(range(len(STATEMENTS)), repeat=d):
            if [STATEMENTS[i] for i in seq].count('M:') > 1:
                continue
            yield seq, 'L:\n  ;L\n' + ''.join(STATEMENTS[i] + '\n' for i in seq)


# ------------------------------------------------------------------ (d) long tokens (each source in its own child process, killed after 20 s)
def long_token_sources():
    """(name, text, must_fail): malformed / valid tokens after a long run of plain characters; time must stay linear-ish"""
    S = []
    for n in (30, 60, 120):
        run = 'abcdefghij' * (n // 10)
        S += [(f'string-unterminated-{n}', f';"{run}\n', True), (f'string-bad-escape-{n}', f';"{run}\\q"\n', True),
              (f'string-non-ascii-{n}', f';"{run}\u00e9"\n', True), (f'string-control-char-{n}', f';"{run}\x01"\n', True),
              (f'string-escapes-then-unterminated-{n}', ';"' + '\\n' * (n // 2) + '\n', True),
              (f'string-valid-{n}', f';"{run}" & 1\n', False),
              (f'char-unterminated-{n}', f";'{run}\n", True),
              (f'identifier-{n}', f'{run}:\n;{run}\n', False), (f'identifier-bad-tail-{n}', f';{run}`\n', True),
              (f'hex-number-bad-tail-{n}', ';0x' + 'f' * n + 'g\n', True), (f'hex-number-{n}', ';0x' + 'f' * n + ' & 1\n', False),
              (f'dots-{n}', ';' + '.' * n + 'x\n', True), (f'comment-{n}', f';  // {run} " \' \\q\n', False),
              (f'parens-unclosed-{n}', ';' + '(' * n + '1\n', True), (f'minus-chain-{n}', ';' + '-' * n + '1 & 1\n', False)]
    return S


def work_long_token(task):
    from fjv.enginecheck import scratch
    _, idx = task
    name, text, must_fail = long_token_sources()[idx]
    sieve = Sieve(PROP, MATCHERS)
    stats = {'runs': 0}
    res = run_source(text, 64, 1, False, False, scratch())
    judge(res, {'name': 'long-token ' + name, 'text': text, 'w': 64, 'version': 1, 'stl': False, 'werror': False, 'long_token_index': idx}, must_fail or None, None, sieve, stats)
    return stats, sieve.result(), None, 1


# ------------------------------------------------------------------ running one source
def run_source(text, w, version, use_stl, werror, wd, special=None):
    """-> dict(outcome, exc, msg, leftover)"""
    from fjv.asm import assemble_files
    from flipjump.utils.exceptions import FlipJumpException, FlipJumpReadFjmException
    from flipjump.fjm.fjm_reader import Reader
    out = wd / 'c14.fjm'
    if out.exists():
        out.unlink()
    src = wd / 'c14.fj'
    paths, names = [src], None
    if special is None:
        src.write_text(text)
    elif special == 'missing':
        paths = [wd / 'does-not-exist.fj']
    elif special == 'repeated':
        src.write_text(';\n')
        paths = [src, src]
    elif special == 'shortname':
        src.write_text(';\n')
        (wd / 'c14b.fj').write_text(';\n')
        paths, names = [src, wd / 'c14b.fj'], ['same', 'same']
    elif special == 'directory':
        paths = [wd]
    elif special == 'garbage':
        src.write_bytes(bytes(range(256)) * 4)
    elif special == 'nofiles':
        paths = []
    res = {'outcome': None, 'exc': None, 'msg': '', 'leftover': None}
    try:
        with watchdog(30.0):
            assemble_files(paths, out, w=w, version=version, use_stl=use_stl, werror=werror, names=names)
        res['outcome'] = 'success'
    except Watchdog:
        res['outcome'] = 'hang'
    except FlipJumpException as e:
        res['exc'] = type(e).__name__
        res['msg'] = str(e)
        cause = e.__cause__
        if 'Unknown exception' in res['msg'] or 'please report this bug' in res['msg']:
            res['outcome'] = 'generic'
            res['cause'] = f'{type(cause).__name__}' if cause is not None else None
            tb = cause.__traceback__ if cause is not None else None
            fn = None
            while tb is not None:
                fn = tb.tb_frame.f_code.co_name
                tb = tb.tb_next
            res['where'] = fn
        else:
            res['outcome'] = 'diagnostic'
    except Exception as e:  # noqa
        res['outcome'] = 'raw'
        res['exc'] = type(e).__name__
        res['msg'] = str(e)[:200]
    if res['outcome'] != 'success' and out.exists():
        try:
            r = Reader(out)
            r.assert_runnable()
            res['leftover'] = 'loadable'
        except FlipJumpReadFjmException:
            res['leftover'] = 'refused'
        except Exception as e:  # noqa
            res['leftover'] = 'refused-raw-' + type(e).__name__
    return res


def judge(res, case, must_fail, needle, sieve, stats):
    stats['runs'] += 1
    stats[res['outcome']] = stats.get(res['outcome'], 0) + 1

    def bad(kind, expected, observed, cls):
        sieve.add({'kind': kind, 'class': cls, 'case': case, 'expected': expected, 'observed': observed,
                   'sig': {'outcome': res['outcome'], 'cause': res.get('cause'), 'where': res.get('where'), 'exc': res['exc']},
                   'summary': f"{case.get('name') or case.get('mutation')} w={case['w']} v={case['version']}: {kind}: {str(observed)[:150]}"})

    o = res['outcome']
    if o == 'generic':
        bad('generic "unknown exception" failure', 'a specific FlipJumpException', f"{res.get('cause')} in {res.get('where')}",
            f"generic {res.get('cause')} @ {res.get('where')}")
    elif o == 'raw':
        bad('raw python exception', 'a specific FlipJumpException', f"{res['exc']}: {res['msg'][:100]}", 'raw ' + str(res['exc']))
    elif o == 'hang':
        bad('assembly did not finish', 'finishes', 'still running after 30 s', 'hang')
    elif o == 'diagnostic' and must_fail is False:
        bad('valid program rejected', 'assembles', res['msg'][:200], 'valid rejected ' + str(case.get('name', '')).split('@')[0])
    elif o == 'success' and must_fail:
        bad('erroneous program assembled', 'a diagnostic', 'success', 'accepted ' + str(case.get('name', '')).split('@')[0])
    elif o == 'diagnostic' and needle and needle not in res['msg']:
        bad('diagnostic does not name the offending construct', f'message mentions {needle!r}', res['msg'][:200], 'unnamed')
    if res['leftover'] == 'loadable':
        bad('failed assembly left a loadable output file', 'no file / refused', 'loads and is runnable', 'leftover')


def work(task):
    from fjv.enginecheck import scratch
    kind = task[0]
    if kind == 'long-token':
        return work_long_token(task)
    sieve = Sieve(PROP, MATCHERS)
    stats = {'runs': 0}
    wd = scratch()
    distinct = set()
    sample = None
    if kind == 'templates':
        _, part, nparts = task
        T = templates()
        for ti, (name, text, must_fail, needle) in enumerate(T):
            if ti % nparts != part:
                continue
            for w in (8, 16, 32, 64):
                for version in (0, 1, 2, 3):
                    res = run_source(text, w, version, False, False, wd)
                    judge(res, {'name': name, 'text': text, 'w': w, 'version': version, 'stl': False, 'werror': False}, must_fail, needle, sieve, stats)
                    distinct.add((name, res['outcome'], res['exc']))
            res = run_source(text, 64, 3, False, True, wd)
            judge(res, {'name': name, 'text': text, 'w': 64, 'version': 3, 'stl': False, 'werror': True}, None if must_fail is None else must_fail, needle, sieve, stats)
            if sample is None and res['outcome'] == 'diagnostic':
                sample = {'template': name, 'text': text, 'exception': res['exc'], 'message': res['msg'][:160]}
        if part == 0:
            for name, sp in SPECIAL:
                for w in (16, 64):
                    res = run_source('', w, 1, False, False, wd, special=sp)
                    judge(res, {'name': name, 'special': sp, 'w': w, 'version': 1, 'stl': False, 'werror': False}, True, None, sieve, stats)
                    distinct.add((name, res['outcome'], res['exc']))
            # the same arithmetic templates with the stl in front (the cached-stl path)
            for name, text, must_fail, needle in T[:16]:
                res = run_source('stl.startup\n' + text + 'stl.loop\n', 64, 3, True, False, wd)
                judge(res, {'name': name + '+stl', 'text': text, 'w': 64, 'version': 3, 'stl': True, 'werror': False}, must_fail, None, sieve, stats)
        return stats, sieve.result(), sample, len(distinct)
    if kind == 'statements':
        _, depth, part, nparts, configs = task
        for mi, (seq, text) in enumerate(statement_programs(depth)):
            if mi % nparts != part:
                continue
            for (w, version) in configs:
                res = run_source(text, w, version, False, False, wd)
                judge(res, {'statements': [STATEMENTS[i] for i in seq], 'text': text, 'w': w, 'version': version, 'stl': False, 'werror': False}, None, None, sieve, stats)
                distinct.add((seq, res['outcome'], res['exc']))
            if sample is None and res['outcome'] == 'diagnostic' and len(seq) >= 2:
                sample = {'statements': [STATEMENTS[i] for i in seq], 'exception': res['exc'], 'message': res['msg'][:160]}
        return stats, sieve.result(), sample, len(distinct)
    _, seed_name, part, nparts, configs = task
    use_stl = seed_name == 'stl'
    for mi, (mut, text) in enumerate(mutants(seed_name)):
        if mi % nparts != part:
            continue
        for (w, version) in configs:
            res = run_source(text, w, version, use_stl, False, wd)
            judge(res, {'mutation': list(mut), 'text': text, 'w': w, 'version': version, 'stl': use_stl, 'werror': False}, None, None, sieve, stats)
        distinct.add(text)
        if sample is None and res['outcome'] == 'diagnostic' and mut[1] == 'sub':
            sample = {'seed': seed_name, 'mutation': list(mut), 'exception': res['exc'], 'message': res['msg'][:160]}
    return stats, sieve.result(), sample, len(distinct)


# ---- known findings
def k_generic(rec, sig):
    s = rec.get('sig', {})
    return s.get('outcome') == 'generic' and s.get('cause') == sig.get('cause') and s.get('where') == sig.get('where')


MATCHERS = {'generic_funnel': k_generic}


def make_tasks(tier, only=None):
    tasks = [('templates', p, 8) for p in range(8)]
    cfg_quick = ((16, 1), (64, 3))
    cfg_all = ((8, 0), (16, 1), (32, 2), (64, 3))
    for seed in ('prim', 'macro', 'expr'):
        for p in range(12):
            tasks.append(('mut', seed, p, 12, cfg_all))
    for p in range(16):
        tasks.append(('mut', 'stl', p, 16, ((64, 3), (32, 1)) if tier == 'thorough' else ((64, 3),)))
    for p in range(16):
        tasks.append(('statements', 4 if tier == 'thorough' else 3, p, 16, ((16, 1), (64, 3)) if tier != 'thorough' else cfg_all))
    if only:
        tasks = [t for t in tasks if only in t]
    return tasks


def replay(args):
    from fjv.enginecheck import scratch
    from fjv.runner import install_watchdog
    install_watchdog()
    rec = load_replay(args.replay)
    c = rec['case']
    if 'long_token_index' in c:
        from fjv.runner import Crash
        item = list(pmap(work, [('long-token', c['long_token_index'])], 1, on_crash='yield', task_timeout=20))[0]
        if isinstance(item, Crash) or item[1][0]:
            print('PROBLEM', 'no result within 20 s' if isinstance(item, Crash) else item[1][0][0]['summary'])
            print(f'VIOLATION property={PROP} replay={args.replay}')
            return 1
        print('replay: ok')
        return 0
    res = run_source(c.get('text', ''), c['w'], c['version'], c.get('stl', False), c.get('werror', False), scratch(), special=c.get('special'))
    print(c.get('text', ''))
    print('outcome:', {k: (v[:300] if isinstance(v, str) else v) for k, v in res.items()})
    sieve = Sieve(PROP)
    must_fail = None
    needle = None
    if c.get('name'):
        for name, text, mf, nd in templates():
            if name == c['name'].replace('+stl', ''):
                must_fail, needle = mf, nd
    judge(res, c, must_fail, needle, sieve, {'runs': 0})
    if sieve.records:
        print(f'VIOLATION property={PROP} replay={args.replay}')
        return 1
    print('replay: ok')
    return 0


def main():
    args = parse_args(PROP)
    bind('plain')
    if args.replay:
        return replay(args)
    run = Run(PROP, 'exploration', args, MATCHERS)
    total, samples, distinct = {}, [], 0
    for stats, res, sample, d in pmap(work, make_tasks(args.tier, args.only), args.jobs):
        for k, v in stats.items():
            total[k] = total.get(k, 0) + v
        run.merge(res)
        distinct += d
        if sample and len(samples) < 4:
            samples.append(sample)
    # long tokens: one killable child per source - a lexer / parser that stalls inside C code cannot be interrupted from within
    from fjv.runner import Crash
    if not args.only or args.only == 'long-token':
        lt = long_token_sources()
        for idx, item in enumerate(pmap(work, [('long-token', i) for i in range(len(lt))], args.jobs, on_crash='yield', task_timeout=20)):
            if isinstance(item, Crash):
                name, text, _ = lt[idx]
                total['runs'] = total.get('runs', 0) + 1
                total['hang'] = total.get('hang', 0) + 1
                run.report({'kind': 'assembly does not finish (or the process died)', 'class': 'hang: long token', 'case': {'name': 'long-token ' + name, 'text': text, 'w': 64,
                            'version': 1, 'long_token_index': idx}, 'expected': 'success or a diagnostic within 20 s', 'observed': str(getattr(item, 'note', None) or item)[:200],
                            'summary': f'long-token {name}: no result within 20 s (child killed)'})
                continue
            stats, res, sample, d = item
            for k, v in stats.items():
                total[k] = total.get(k, 0) + v
            run.merge(res)
            distinct += d
    vac = [k for k in ('diagnostic', 'success') if not total.get(k)]
    if vac:
        print(f'CHECK-INTERNAL-ERROR vacuous: no run ended in {vac}', file=sys.stderr)
    cov = {
        'evaluations': total.get('runs', 0),
        'distinct_nontrivial': distinct,
        'rule': 'evaluations = assemblies; distinct_nontrivial = distinct (template, outcome class) pairs plus distinct mutant source texts '
                '(a set per worker slice; slices are disjoint)',
        'samples': samples or [{'note': 'none'}],
        'templates': len(templates()) + len(SPECIAL),
        'outcomes': {k: total.get(k, 0) for k in ('success', 'diagnostic', 'generic', 'raw', 'hang')},
        'bounds': {'template_widths': [8, 16, 32, 64], 'template_versions': [0, 1, 2, 3], 'mutation_tokens': len(MUT_TOKENS), 'seeds': list(SEEDS),
                   'magnitudes': 'exponents/shifts in templates are tiny; nesting <= 60; astronomically large ** / << are not generated'},
        'exhaustive': not vac,
    }
    code = run.finish(cov, assumptions=[
        'a warning-only situation may succeed; only arithmetic-fault / explicit error templates are required to fail',
        '"names the offending construct" is checked for templates that carry a distinctive identifier'])
    return 2 if vac and not code else code


if __name__ == '__main__':
    main_guard(main)
