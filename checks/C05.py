"""C05 - bit library macros compute their documented function for every operand.

Same explicit-state search as C04 (checks/C04.py, fjv/stlcheck.py) on the bit namespace: bit
vectors of length 1..8 exhaustively (all 65 536 operand pairs at n=8), single-bit forms
exhaustively, every length 9..24 (thorough ..40, 64) over a boundary alphabet, w in {64, 32, 16};
oracle = doc-comment formulas (fjv/stlspec.py bit_specs) + documented exit + whole-image frame
invariant + residue closure + mixed sequences.
"""
import sys

from fjv.runner import Run, Sieve, parse_args, pmap, load_replay, main_guard

PROP = 'C05'
NS = 'bit'
VARS = ('a', 'b', 'c', 'd')


def is_alias(name):
    """in-place forms (an output vector is an input vector)"""
    return '_q' in name and '_r' in name


def spec_groups(n, single=False):
    from fjv import stlspec
    specs = stlspec.bit1_specs() if single else stlspec.bit_specs(n)
    heavy = {'mul', 'mul_self', 'mul_loop', 'div', 'div_loop', 'idiv', 'idiv_loop', 'div10'}
    heavy |= {s.name for s in specs if is_alias(s.name)}
    light = [s for s in specs if s.name not in heavy]
    groups = [light[i::3] for i in range(3)]
    groups += [[s] for s in specs if s.name in heavy]
    return [g for g in groups if g]


def make_tasks(tier):
    tasks = []
    widths = (64, 32, 16) if tier == 'thorough' else (32,)
    for w in widths:
        for gi in range(len(spec_groups(1, True))):
            tasks.append((tier, w, 1, True, gi, 1 << 16))
        for n in range(1, 9):
            for gi, g in enumerate(spec_groups(n)):
                small = tier != 'thorough' and n >= 7 and is_alias(g[0].name)
                tasks.append((tier, w, n, False, gi, 1 << 10 if small else 1 << 16))
    if tier != 'thorough':
        for n in (4, 8):
            for gi in range(len(spec_groups(n))):
                tasks.append((tier, 64 if n == 8 else 16, n, False, gi, 1 << 10))
    lengths = list(range(9, 25)) if tier != 'thorough' else list(range(9, 41)) + [64]
    for n in lengths:
        for gi in range(len(spec_groups(n))):
            tasks.append((tier, (64, 32, 16)[n % 3], n, False, gi, 64 if tier != 'thorough' else 256))
    tasks.append((tier, 32, 2, 'mixed', 0, 0))
    return tasks


def work(task):
    from fjv.enginecheck import scratch
    from fjv.stlharness import Harness
    from fjv import stlcheck
    tier, w, n, single, gi, budget = task
    sieve = Sieve(PROP, MATCHERS)
    stats = {'transitions': 0, 'states': 0, 'blocks': 0}
    wd = scratch()
    case_base = {'w': w, 'n': n, 'ns': NS, 'single': bool(single is True)}
    try:
        if single == 'mixed':
            from fjv import stlspec
            names = ('add', 'sub', 'inc', 'dec', 'neg', 'or', 'cmp', 'shl', 'ror', 'mul', 'mov', 'xor_zero', 'if', 'div')
            specs = [s for s in stlspec.bit_specs(2) if s.name in names]
            h = Harness(w, NS, 2, [(v, 2) for v in VARS], specs, wd, init='startup', tag=f'c05-mixed')
            stlcheck.mixed_sequences(h, specs, 2, 3 if tier == 'thorough' else 2, sieve, stats, case_base, values=(0, 1, 2, 3))
            stats['states'] += 1
            return stats, sieve.result(), {'mixed_sequences_of': [s.name for s in specs]}, 0
        specs = spec_groups(n, single)[gi]
        h = Harness(w, NS, n, [(v, n) for v in VARS], specs, wd, init='startup', tag=f'c05-{w}-{n}-{gi}')
    except Exception as e:  # noqa
        if 'Not enough space' in str(e) or 'FlipJump' in type(e).__name__:
            stats['harness_not_assemblable'] = 1
            stats['note'] = 0
            return stats, sieve.result(), {'skipped': f'w={w} n={n} group {gi}: {type(e).__name__}: {str(e)[:120]}'}, 0
        raise
    outcomes = 0
    for spec in specs:
        outcomes += stlcheck.explore_block(h, spec, n, budget, sieve, stats, case_base, closure=(n <= 4 or tier == 'thorough'))
    sample = {'w': w, 'n': n, 'blocks': [s.name for s in specs], 'program_head': h.text[:300]}
    return stats, sieve.result(), sample, outcomes


# ---- known findings
def k_mul10_n1(rec, sig):
    """F13: bit.mul10 with n=1 (calls bit.shl n, 2 with n=1) clears the bit that follows x in memory"""
    c = rec['case']
    return c.get('block') == 'mul10' and c['n'] == 1


def k_idiv_b0(rec, sig):
    """F14: bit.idiv / idiv_loop with b == 0 and a < 0 negate q and r instead of doing nothing"""
    c = rec['case']
    if c.get('block') not in ('idiv', 'idiv_loop'):
        return False
    n = c['n']
    return c['operands']['b'] == 0 and (c['operands']['a'] >> (n - 1)) & 1 == 1


MATCHERS = {'bit_mul10_n1': k_mul10_n1, 'bit_idiv_b0_negative_a': k_idiv_b0}


def replay(args):
    from fjv.enginecheck import scratch
    from fjv.stlharness import Harness
    from fjv import stlcheck, stlspec
    rec = load_replay(args.replay)
    c = rec['case']
    if 'block' not in c:
        print('sequence case: re-run the check')
        return 1
    specs = stlspec.bit1_specs() if c['single'] else stlspec.bit_specs(c['n'])
    spec = [s for s in specs if s.name == c['block']][0]
    h = Harness(c['w'], NS, c['n'], [(v, c['n']) for v in VARS], [spec], scratch(), init='startup', tag='replay')
    mask = (1 << c['n']) - 1
    for prev in c.get('previous', [])[:-1] if c.get('phase') == 'chain' else []:
        v = {nm: stlcheck.SENTINEL[nm] & mask for nm in VARS}
        v.update(zip(spec.operands, prev))
        h.step(spec.name, v)
    v = {k: int(x) for k, x in c['vals'].items()}
    upd, exit_ = spec.model(v)
    exp = dict(v)
    exp.update({k: x & mask for k, x in upd.items()})
    r = h.step(spec.name, v)
    fd = h.frame_diffs(spec.name, r['snap'], r['vals']) if r.get('snap') else 'n/a'
    print('call:', c['call'], '\nvals:', v, '\nexpected:', exp, exit_, '\nobserved:', r['vals'], r['exit'], 'cause', r['cause'], '\nframe diffs:', fd)
    if r['cause'] != 0 or r['vals'] != exp or r['exit'] != exit_ or fd:
        print(f'VIOLATION property={PROP} replay={args.replay}')
        return 1
    print('replay: ok (if the original failure depended on a scratch residue, re-run the check)')
    return 0


def main():
    args = parse_args(PROP)
    from fjv.bind import bind
    bind('verif')
    if args.replay:
        return replay(args)
    run = Run(PROP, 'model_checking', args, MATCHERS)
    total, samples, outcomes = {}, [], 0
    for stats, res, sample, oc in pmap(work, make_tasks(args.tier), args.jobs):
        for k, v in stats.items():
            total[k] = total.get(k, 0) + v
        run.merge(res)
        outcomes += oc
        if sample and (len(samples) < 3 or 'skipped' in sample):
            samples.append(sample)
    vac = []
    if total.get('blocks', 0) < 50 or total.get('transitions', 0) < 100000:
        vac.append('too few blocks / transitions')
    if vac:
        print(f'CHECK-INTERNAL-ERROR vacuous: {vac}', file=sys.stderr)
    cov = {
        'states': total.get('states', 0),
        'transitions': total.get('transitions', 0),
        'traces_validated_against_impl': total.get('transitions', 0),
        'samples': samples[:6] or [{'note': 'none'}],
        'blocks_explored': total.get('blocks', 0),
        'distinct_scratch_residues': total.get('residues', 0),
        'residue_cap_hit': total.get('residue_cap_hit', 0),
        'blocks_on_boundary_alphabet': total.get('boundary_alphabet_blocks', 0),
        'distinct_model_outcomes': outcomes,
        'harness_not_assemblable': total.get('harness_not_assemblable', 0),
        'bounds': {'exhaustive_operands': 'n=1..8 (two operands at n=8: 65 536 pairs) and single-bit forms; boundary alphabet above',
                   'widths': [64, 32, 16], 'residues_per_block_cap': 24, 'vector_lengths': '1..8 exhaustive; 9..24 (thorough 9..40, 64) over a boundary alphabet'},
        'exhaustive': not vac and not total.get('residue_cap_hit'),
    }
    code = run.finish(cov, assumptions=[
        'R6 (fjv/stlspec.py) transcribes the doc-comment formulas; a state is (variables, image): the machine is deterministic, equal images have equal futures',
        'words 0..3 (the no-flip sink at address 0, the dummy variable at address 0 and the IO cells) are exempt from the frame invariant',
        'blocks are entered at their first op from the engine API (Memory.run(start_ip=...)), the stl init area is static data'])
    return 2 if vac and not code else code


if __name__ == '__main__':
    main_guard(main)
