"""C18 - a device failure or interrupt stops the run at a consistent point.

Fault enumeration (K3): for every program of a deterministic program set, every IO call index k of
its run, every fault kind {library IO error, IOReadOnEOF from a read / from a write, foreign
exception, KeyboardInterrupt raised by the device, interrupt made *pending* during call k} and
every engine / storage / ring mode, the run must stop as the property says and the state at the
stop (op count, device-side calls, last-ops list, memory read through the retained DeviceMemory)
must equal the reference machine R1 after exactly the ops executed before the stop.
"""
import ctypes
import functools
import itertools
import operator
import sys

from fjv.bind import bind
from fjv.runner import Run, Sieve, parse_args, pmap, load_replay, main_guard, watchdog, Watchdog

PROP = 'C18'
RING = 70
MODES = (
    ('featured', 'featured', RING, {}),
    ('featured-noring', 'featured', None, {}),
    ('fast', 'fast', RING, {}),
    ('fast-noring', 'fast', None, {}),
    ('native', 'native', None, {}),
    ('native-ring', 'native', RING, {}),
    ('native-ring2', 'native', 2, {}),
    ('paged', 'native-paged', None, {}),
    ('paged-ring', 'native-paged', RING, {}),
    ('hybrid', 'native', None, {'flat_max_words': 3}),
    ('measure', 'native-measure', None, {}),
)
KINDS = ('lib', 'eof', 'foreign', 'foreign-os', 'foreign-eoferror', 'foreign-memory', 'foreign-recursion', 'foreign-stopiteration', 'foreign-assertion',
         'foreign-lookup', 'kbd', 'pending')  # foreign: ValueError / BrokenPipeError (an OSError) / the builtin EOFError


class _Lib(Exception):
    pass


def classes():
    from flipjump.interpreter.io_devices.IODevice import IODevice
    from flipjump.utils.exceptions import IODeviceException, IOReadOnEOF

    class InjectedDeviceError(IODeviceException):
        pass

    class FaultDevice(IODevice):
        """scripted answers; raises `exc` at IO call number k (reads and writes counted together)."""

        def __init__(self, answers, k, exc):
            self.answers, self.k, self.exc = list(answers), k, exc
            self.n = 0
            self.log = []
            self.memory = None

        def attach_memory(self, device_memory):
            self.memory = device_memory

        def _tick(self, kind):
            i = len(self.log)
            self.log.append(kind)
            if i == self.k:
                raise self.exc

        def read_bit(self):
            self._tick('r')
            if self.n >= len(self.answers):
                raise HorizonError()
            a = self.answers[self.n]
            self.n += 1
            if a == 'E':
                raise IOReadOnEOF('scripted EOF')
            return bool(a)

        def write_bit(self, bit):
            self._tick('w')

        def get_output(self, *, allow_incomplete_output=False):
            return b''

    class PendingDevice(IODevice):
        """read_bit / write_bit are pure-C callables (no bytecode runs inside the call): IO call k
        trips SIGINT (PyErr_SetInterrupt) and returns normally; every read answers 0."""

        def __init__(self, k):
            setint = ctypes.pythonapi.PyErr_SetInterrupt
            setint.restype = None
            setint.argtypes = []
            self.counter = itertools.count(1)
            it = itertools.chain(itertools.repeat(None, k), map(_call0(setint), [0]), map(operator.not_, self.counter))
            self.read_bit = functools.partial(next, it)
            self.write_bit = functools.partial(next, it)
            self.k = k
            self.memory = None

        def attach_memory(self, device_memory):
            self.memory = device_memory

        def read_bit(self):  # replaced per instance
            raise NotImplementedError

        def write_bit(self, bit):  # replaced per instance
            raise NotImplementedError

        def get_output(self, *, allow_incomplete_output=False):
            return b''

        def calls_made(self):
            """total IO calls consumed so far (k before the trip, the trip, then the counted tail)."""
            return self.k + 1 + (next(self.counter) - 1)

    return FaultDevice, PendingDevice, InjectedDeviceError


def _call0(cfunc):
    """a C-level callable f(x) -> cfunc() : functools.partial over a ctypes function ignores x? no -
    ctypes cdecl functions accept (and ignore) surplus integer arguments, so cfunc(0) is fine."""
    cfunc.argtypes = None
    return cfunc


class HorizonError(Exception):
    pass


# ------------------------------------------------------------------ programs
def program_set(w, tier):
    """deterministic set of small IO programs: the first image per behaviour key from the C01
    'in6' / 'one4' enumerations, plus hand-built ones."""
    from fjv.enginecheck import answer_scripts, word_alphabet
    from fjv.ref import machine as R1
    import checks.C01 as C01
    want = 14 if tier == 'thorough' else 8
    progs, keys = [], set()
    lay = C01.layouts(w, 'quick')
    names = [n for n in lay if n.startswith('in6')] + ['one4']
    for name in names:
        segs, pos, alpha, fixed = lay[name]
        count = 0
        for combo in itertools.product(alpha, repeat=len(pos)):
            count += 1
            if count > 60000:
                break
            data = dict(fixed)
            data.update(zip(pos, combo))
            image = R1.Image(w, segs, data)
            for answers, r in answer_scripts(image, 3, 64):
                if r.cause in (R1.HORIZON, R1.NEED_INPUT) or not (2 <= len(r.io) <= 8):
                    continue
                kinds = tuple(k for k, _ in r.io)
                key = (kinds, r.cause, any(ip & (w - 1) for ip in r.trace), min(len(r.trace), 6))
                if key in keys:
                    continue
                keys.add(key)
                progs.append((f'{name}#{len(progs)}', image, answers))
                break
            if len(progs) >= want * (names.index(name) + 1):
                break
    return progs[:want * len(names)]


def output_loop(w):
    """endless 2-op loop at 4w/6w that outputs 0,1,0,1,... (every op is an IO call)."""
    from fjv.ref import machine as R1
    dw = 2 * w
    return R1.Image(w, [(0, 8)], {0: 0, 1: 4 * w, 2: 0, 3: 0, 4: dw, 5: 6 * w, 6: dw + 1, 7: 4 * w})


# ------------------------------------------------------------------ one faulted run
def run_fault(image, path, answers, k, kind, mode, classes_, probe):
    """returns dict observation."""
    from flipjump.interpreter import fjm_run
    from flipjump.utils.exceptions import IOReadOnEOF, FlipJumpRuntimeException
    from fjv.engines import ENGINES, engine_env
    FaultDevice, PendingDevice, InjectedDeviceError = classes_
    name, engine, ring, kw = mode
    kwargs, env = ENGINES[engine]
    kwargs = dict(kwargs)
    kwargs.update(kw)
    exc = None
    if kind == 'pending':
        dev = PendingDevice(k)
    else:
        exc = {'lib': InjectedDeviceError('injected'), 'eof': IOReadOnEOF('injected eof'), 'foreign': ValueError('injected'), 'foreign-os': BrokenPipeError('injected'), 'foreign-eoferror': EOFError('injected'),
               # exception classes an engine or its caller might be tempted to treat specially (out of memory, stack depth, iteration protocol ...)
               'foreign-memory': MemoryError('injected'), 'foreign-recursion': RecursionError('injected'), 'foreign-stopiteration': StopIteration('injected'),
               'foreign-assertion': AssertionError('injected'), 'foreign-lookup': KeyError('injected'),
               'kbd': KeyboardInterrupt()}[kind]
        dev = FaultDevice(answers, k, exc)
    obs = {'raised': None, 'same_object': None, 'cause_chained': None}
    st = None
    try:
        with engine_env(env):
            with watchdog(20.0):
                st = fjm_run.run(path, io_device=dev, last_ops_debugging_list_length=ring, **kwargs)
    except Watchdog:
        obs['raised'] = 'Watchdog'
    except BaseException as e:  # noqa
        obs['raised'] = type(e).__name__
        obs['same_object'] = e is exc
        obs['cause_chained'] = e.__cause__ is exc if exc is not None else None
        if isinstance(e.__cause__, Watchdog):
            obs['raised'] = 'Watchdog'
    if st is not None:
        obs['cause'] = str(st.termination_cause)
        obs['ops'] = st.op_counter
        obs['last_ops'] = list(st.last_ops_addresses) if st.last_ops_addresses is not None else None
        obs['fault'] = st.memory_error_address
    obs['calls'] = dev.calls_made() if kind == 'pending' else len(dev.log)
    obs['call_kinds'] = None if kind == 'pending' else list(dev.log)
    if dev.memory is not None:
        try:
            obs['mem'] = {wa: dev.memory.read_word(wa) for wa in probe}
        except BaseException as e:  # noqa
            obs['mem'] = 'unreadable: ' + type(e).__name__
    return obs


def expectation(image, answers, k, kind, mode, base, obs):
    """list of (field, expected, observed). base = R1 fault-free run."""
    from fjv.ref import machine as R1
    name, engine, ring, kw = mode
    call_kind = base.io[k][0]
    diffs = []
    H = 10 ** 7

    def cmp_state(r, ops, calls, trace, check_last=True):
        if obs.get('ops') is not None and obs['ops'] != ops:
            diffs.append(('ops', ops, obs['ops']))
        if obs['calls'] != calls:
            diffs.append(('device_calls', calls, obs['calls']))
        if isinstance(obs.get('mem'), dict):
            exp = {wa: r.mem.get(wa, 0) for wa in obs['mem']}
            if exp != obs['mem']:
                bad = [wa for wa in exp if exp[wa] != obs['mem'][wa]]
                diffs.append(('memory', {wa: exp[wa] for wa in bad}, {wa: obs['mem'][wa] for wa in bad}))
        elif obs.get('mem') is not None:
            diffs.append(('memory', 'readable', obs['mem']))
        if check_last and 'last_ops' in obs:
            exp = trace[-ring:] if ring else None
            if obs['last_ops'] != exp:
                diffs.append(('last_ops', exp, obs['last_ops']))

    if obs['raised'] == 'Watchdog':
        return [('termination', 'stops', 'still running after 20 s')]
    if kind == 'lib' or kind.startswith('foreign') or (kind == 'eof' and call_kind == 'w'):
        r = R1.run(image, answers, H, stop_after_io=k)
        if kind.startswith('foreign'):
            if obs['raised'] != 'FlipJumpRuntimeException' or not obs['cause_chained']:
                diffs.append(('exception', 'FlipJumpRuntimeException chained from the device exception', (obs['raised'], obs['cause_chained'])))
        else:
            if not obs['same_object']:
                diffs.append(('exception', 'the device exception object itself', (obs['raised'], obs['same_object'])))
        cmp_state(r, None, k + 1, r.trace, check_last=False)
        return diffs
    if kind == 'eof':  # read
        nread = sum(1 for kk, _ in base.io[:k] if kk == 'r')
        r = R1.run(image, list(answers[:nread]) + ['E'], H)
        if obs['raised'] is not None or obs.get('cause') != 'EOF':
            diffs.append(('termination', 'EOF', (obs['raised'], obs.get('cause'))))
        cmp_state(r, r.ops, k + 1, r.trace)
        return diffs
    if kind == 'kbd':
        r = R1.run(image, answers, H, stop_after_io=k)
        if obs['raised'] is not None or obs.get('cause') != 'keyboard-interrupt':
            diffs.append(('termination', 'keyboard-interrupt', (obs['raised'], obs.get('cause'))))
        cmp_state(r, r.ops, k + 1, r.trace)
        return diffs
    # pending interrupt during IO call k (all reads answer 0)
    if obs['raised'] is not None or obs.get('cause') != 'keyboard-interrupt':
        diffs.append(('termination', 'keyboard-interrupt', (obs['raised'], obs.get('cause'))))
        return diffs
    zero = [0] * 64
    if engine in ('featured', 'fast'):
        # python loops: the interrupt surfaces at the first eval-breaker check after call k returns
        r = R1.run(image, zero, H, stop_after_io=k)
        cmp_state(r, r.ops, k + 1, r.trace)
    else:
        # native: stops at its next signal poll (op boundary) or after the program ended
        n = obs.get('ops')
        m = R1.run(image, zero, H, stop_after_io=k).ops
        if n is None or n < m:
            diffs.append(('ops', f'>= {m}', n))
        full = base if base.cause != R1.HORIZON else None  # the natural end of the all-zero-input run
        if full is not None and n == full.ops:
            # the program ended by itself before the next poll; the interrupt surfaced afterwards.
            # (the op in flight at a fault / EOF end may have done an IO call: that is the natural final state)
            cmp_state(full, full.ops, len(full.io), full.trace)
        else:
            r = R1.run(image, zero, n)
            cmp_state(r, r.ops, len(r.io), r.trace)
    return diffs


def pending_answers_ok(base):
    return all(a == 0 for kk, a in base.io if kk == 'r')


def work(task):
    from fjv.enginecheck import write_image, probe_words
    from fjv.ref import machine as R1
    tier, w, family, part, nparts = task
    if tier == 'window':
        return work_window(task)
    classes_ = classes()
    sieve = Sieve(PROP, MATCHERS)
    stats = {'programs': 0, 'fault_points': 0, 'runs': 0, 'fired': 0}
    hist = {}
    samples = []
    if family == 'small':
        progs = program_set(w, tier)
    elif family == 'loop':
        progs = [('output-loop', output_loop(w), [])]
    else:
        progs = [cat_program(w)]
    for pi, (pname, image, answers) in enumerate(progs):
        if family == 'small' and pi % nparts != part:
            continue
        stats['programs'] += 1
        path = write_image(image, f'c18-{w}-{family}.fjm')
        if family == 'loop':
            ks = (0, 1, 5) if tier != 'thorough' else (0, 1, 2, 5, 6)
            base_io = [('w', i & 1) for i in range(1 << 20)]
            base = None
        else:
            base = R1.run(image, answers, 10 ** 7)
            assert base.cause not in (R1.HORIZON, R1.NEED_INPUT), (pname, base.cause)
            ks = range(len(base.io))
            base_io = base.io
        zero_base = R1.run(image, [0] * 64, 10 ** 6) if family != 'loop' else None
        loop_base = _LoopBase(base_io) if family == 'loop' else None
        probes = {}
        for pk in ('pending', 'other'):
            if family == 'cat':
                probes[pk] = cat_probe(image)
            else:
                probes[pk] = probe_words(image, R1.run(image, [0] * 64 if pk == 'pending' else answers, 64))
        for ki, k in enumerate(ks):
            if family != 'small' and ki % nparts != part:
                continue
            for kind in KINDS:
                if kind == 'pending':
                    if family == 'loop':
                        use = (k, (1 << 18) + 5) if k == 0 else (k,)
                    else:
                        # the pending device answers 0 to every read: use the all-zero run's call indices
                        if zero_base.cause in (R1.HORIZON, R1.NEED_INPUT) or k >= len(zero_base.io):
                            continue
                        use = (k,)
                else:
                    use = (k,)
                for kk in use:
                    stats['fault_points'] += 1
                    for mode in MODES:
                        b = base if kind != 'pending' else zero_base
                        if family == 'loop':
                            b = loop_base
                        probe = probes['pending' if kind == 'pending' else 'other']
                        obs = run_fault(image, path, answers, kk, kind, mode, classes_, probe)
                        stats['runs'] += 1
                        diffs = expectation(image, answers, kk, kind, mode, b, obs)
                        fired = obs['calls'] >= kk + 1
                        stats['fired'] += int(fired)
                        hk = f'{kind}:{obs.get("cause") or obs.get("raised")}'
                        hist[hk] = hist.get(hk, 0) + 1
                        if not fired:
                            diffs.append(('fault_fired', True, False))
                        if diffs:
                            sieve.add({
                                'kind': 'fault-stop-state',
                                'case': {'program': pname, 'image': image.to_json() if family != 'cat' else 'stl cat.fj w=%d' % w,
                                         'answers': answers, 'k': kk, 'fault': kind, 'mode': mode[0], 'engine': mode[1], 'ring': mode[2],
                                         'kwargs': mode[3], 'family': family, 'w': w},
                                'expected': {d[0]: d[1] for d in diffs}, 'observed': {d[0]: d[2] for d in diffs},
                                'diff_fields': sorted(d[0] for d in diffs),
                                'obs': {x: obs.get(x) for x in ('raised', 'cause', 'ops', 'calls')},
                                'summary': f'w={w} {pname} fault={kind}@call{kk} mode={mode[0]}: differs in {[d[0] for d in diffs]}',
                            })
                        if len(samples) < 2 and kind == 'kbd' and mode[0] == 'native-ring':
                            samples.append({'program': pname, 'w': w, 'k': kk, 'fault': kind, 'mode': mode[0],
                                            'observed': {x: obs.get(x) for x in ('cause', 'ops', 'calls', 'last_ops')}})
    return stats, hist, sieve.result(), samples


class _LoopBase:
    cause = 'horizon'

    def __init__(self, io):
        self.io = io


_cat_cache = {}


def cat_program(w):
    from fjv.asm import assemble_files, load_image
    from fjv.enginecheck import scratch
    from fjv import REPO
    if w not in _cat_cache:
        out = scratch() / f'cat{w}.fjm'
        assemble_files([REPO / 'programs' / 'print_tests' / 'cat.fj'], out, w=w, version=1)
        image = load_image(out)
        bits = [(b >> i) & 1 for b in b'a\x00' for i in range(8)]
        _cat_cache[w] = ('cat', image, bits)
    return _cat_cache[w]


def cat_probe(image):
    return sorted(image.data)[:4000:7]


def known_native_kbd_lastops(record, sig):
    """F7: the native engine returns an empty last-ops list when the run ends by an interrupt
    (raised by the device or pending); everything else about the stop is right."""
    c = record['case']
    return (c['engine'].startswith('native') and c['ring'] and c['fault'] in ('kbd', 'pending')
            and record['diff_fields'] == ['last_ops'] and record['observed']['last_ops'] == [])


MATCHERS = {'native_interrupt_empty_last_ops': known_native_kbd_lastops}



# ------------------------------------------------------------------ the interactive window's event pump (an interrupt route of its own)
def install_pygame_stand_in():
    """pygame is optional and not installed here: a stand-in module with just the names pygame_window.py uses; its event queue is
    scripted by the harness (pg._queue) and display.toggle_fullscreen may be told to fail (pg._toggle_fails)."""
    import sys
    import types
    pg = types.ModuleType('pygame')
    pg.QUIT, pg.KEYDOWN, pg.KEYUP = 256, 768, 769
    pg.SCALED, pg.RESIZABLE = 512, 16
    pg.K_UP, pg.K_DOWN, pg.K_LEFT, pg.K_RIGHT = 1073741906, 1073741905, 1073741904, 1073741903
    pg.K_LSHIFT, pg.K_RSHIFT, pg.K_LCTRL, pg.K_RCTRL, pg.K_LALT, pg.K_RALT = 1073742049, 1073742053, 1073742048, 1073742052, 1073742050, 1073742054
    pg.K_F4, pg.K_F11 = 1073741885, 1073741892

    class error(RuntimeError):
        pass
    pg.error = error
    pg._queue, pg._toggles, pg._toggle_fails = [], [0], [False]

    class Event:
        def __init__(self, type_, **kw):
            self.type = type_
            self.__dict__.update(kw)
    pg.event = types.SimpleNamespace(Event=Event, get=lambda: [pg._queue.pop(0) for _ in range(len(pg._queue))])

    class Surface:
        def __init__(self, size):
            self.size = size

        def get_size(self):
            return self.size

        def blit(self, *a):
            pass

    def toggle():
        pg._toggles[0] += 1
        if pg._toggle_fails[0]:
            raise error('cannot toggle')
    pg.display = types.SimpleNamespace(init=lambda: None, set_caption=lambda t: None, set_mode=lambda size, flags=0: Surface(tuple(size)),
                                       flip=lambda: None, quit=lambda: None, toggle_fullscreen=toggle)
    pg.image = types.SimpleNamespace(frombuffer=lambda b, size, fmt: Surface(tuple(size)))
    sys.modules['pygame'] = pg
    return pg


WINDOW_EVENTS = ('down-b', 'up-b', 'down-F4', 'down-F11', 'up-F11', 'down-up-arrow', 'down-key0', 'down-key128', 'quit', 'other')


def window_event(pg, name):
    E = pg.event.Event
    return {'down-b': lambda: E(pg.KEYDOWN, key=98), 'up-b': lambda: E(pg.KEYUP, key=98), 'down-F4': lambda: E(pg.KEYDOWN, key=pg.K_F4),
            'down-F11': lambda: E(pg.KEYDOWN, key=pg.K_F11), 'up-F11': lambda: E(pg.KEYUP, key=pg.K_F11),
            'down-up-arrow': lambda: E(pg.KEYDOWN, key=pg.K_UP), 'down-key0': lambda: E(pg.KEYDOWN, key=0),
            'down-key128': lambda: E(pg.KEYDOWN, key=128), 'quit': lambda: E(pg.QUIT), 'other': lambda: E(1024, pos=(1, 2))}[name]()


WINDOW_KEYS = {'down-b': (True, 98), 'up-b': (False, 98), 'down-up-arrow': (True, 0x80)}


def work_window(task):
    """every sequence of event batches through PygameWindow.pump_events / WindowKeyEventSource / InteractiveScreen presents: a batch that
    holds a window-close event must end the pump with KeyboardInterrupt (that is how `the user closes the window` becomes a
    keyboard-interrupt termination), whatever else the batch holds; a batch without one must not raise; documented key codes queue in order."""
    _, tier, route, part, nparts = task
    sieve = Sieve(PROP, MATCHERS)
    stats = {'programs': 0, 'fault_points': 0, 'runs': 0, 'fired': 0}
    hist = {}
    pg = install_pygame_stand_in()
    import importlib
    import flipjump.interpreter.io_devices.pygame_window as PW
    importlib.reload(PW)
    n = len(WINDOW_EVENTS)
    maxlen = 4 if tier == 'thorough' else 3
    batches = [()] + [b for ln in range(1, maxlen + 1) for b in itertools.product(range(n), repeat=ln)]
    short = [b for b in batches if len(b) <= 2]
    if route == 'pump':
        seqs = [(b,) for b in batches] + [(a, b) for a in short for b in short]
    else:
        seqs = [(b,) for b in batches if len(b) <= 3]
    for si, seq in enumerate(seqs):
        if si % nparts != part:
            continue
        for toggle_fails in ((False, True) if any(3 in b for b in seq) else (False,)):
            pg._queue.clear()
            pg._toggle_fails[0] = toggle_fails
            win = PW.PygameWindow()
            win.ensure_open(4, 2)
            closed = False
            keys = []
            problems = []
            stats['runs'] += 1
            for bi, batch in enumerate(seq):
                pg._queue.extend(window_event(pg, WINDOW_EVENTS[e]) for e in batch)
                want_interrupt = (not closed) and any(WINDOW_EVENTS[e] == 'quit' for e in batch)
                if not closed and not want_interrupt:
                    keys += [WINDOW_KEYS[WINDOW_EVENTS[e]] for e in batch if WINDOW_EVENTS[e] in WINDOW_KEYS]
                got = None
                delivered = None
                try:
                    if route == 'pump':
                        win.pump_events()
                    elif route == 'key-source':
                        delivered = PW.WindowKeyEventSource(win).next_due_event(0)
                    else:
                        scr = PW.InteractiveScreen(window=win)
                        scr.width, scr.height, scr.last_frame_rgb = 4, 2, [(0, 0, 0)] * 8
                        PW.InMemoryScreen._present = lambda self: None   # only the window side of a present is exercised here
                        scr._present()
                except KeyboardInterrupt:
                    got = 'KeyboardInterrupt'
                except BaseException as e:  # noqa
                    got = type(e).__name__
                if want_interrupt:
                    stats['fired'] += 1
                    closed = True
                exp = 'KeyboardInterrupt' if want_interrupt else None
                hist[str(exp)] = hist.get(str(exp), 0) + 1
                if got != exp:
                    problems.append((f'batch {bi}: outcome of the event pump', exp, got))
                if bool(win.closed) != closed:
                    problems.append((f'batch {bi}: window.closed', closed, bool(win.closed)))
                if not want_interrupt and not closed:
                    if delivered is not None:
                        if not keys or tuple(delivered) != keys[0]:
                            problems.append((f'batch {bi}: key event delivered', keys[0] if keys else None, delivered))
                        keys = keys[1:]
                    if [tuple(k) for k in win.key_events] != keys:
                        problems.append((f'batch {bi}: queued key events', list(keys), [tuple(k) for k in win.key_events]))
                if problems:
                    break
            if problems:
                names = [[WINDOW_EVENTS[e] for e in b] for b in seq]
                sieve.add({'kind': 'window event pump: closing the window is not a keyboard interrupt / events mishandled', 'class': f'window {route} {problems[0][0].split(": ")[1]}',
                           'case': {'family': 'window', 'route': route, 'batches': names, 'toggle_fails': toggle_fails},
                           'expected': {p_[0]: p_[1] for p_ in problems}, 'observed': {p_[0]: p_[2] for p_ in problems},
                           'summary': f'window route={route} batches={names} toggle_fails={toggle_fails}: {problems[0]}'})
    stats['fault_points'] = stats['runs']
    return stats, hist, sieve.result(), [{'window_route': route, 'batches': len(batches), 'sequences': len(seqs)}]


def replay(args):
    from fjv.enginecheck import write_image, probe_words
    from fjv.ref import machine as R1
    from fjv.runner import install_watchdog
    install_watchdog()
    rec = load_replay(args.replay)
    c = rec['case']
    w = c['w']
    if c['family'] == 'cat':
        _, image, answers = cat_program(w)
        probe = cat_probe(image)
    else:
        image = R1.Image.from_json(c['image'])
        answers = c['answers']
        probe = probe_words(image, R1.run(image, [0] * 64 if c['fault'] == 'pending' else answers, 64))
    mode = [m for m in MODES if m[0] == c['mode']][0]
    path = write_image(image, 'replay.fjm')
    obs = run_fault(image, path, answers, c['k'], c['fault'], mode, classes(), probe)
    if c['family'] == 'loop':
        b = _LoopBase([('w', i & 1) for i in range(1 << 20)])
    else:
        b = R1.run(image, [0] * 64 if c['fault'] == 'pending' else answers, 10 ** 7)
    diffs = expectation(image, answers, c['k'], c['fault'], mode, b, obs)
    print('observed:', {k: v for k, v in obs.items() if k != 'mem'})
    if diffs:
        print('DIFF', diffs)
        print(f'VIOLATION property={PROP} replay={args.replay}')
        return 1
    print('replay: the stop is consistent with the reference machine')
    return 0


def main():
    args = parse_args(PROP)
    bind('plain')
    if args.replay:
        return replay(args)
    run = Run(PROP, 'fault_enumeration', args, MATCHERS)
    widths = (8, 16, 32, 64) if args.tier == 'thorough' else (16, 64)
    tasks = [(args.tier, 32, 'loop', p, 3) for p in range(3)]
    tasks += [(args.tier, 64, 'cat', p, 12) for p in range(12)]
    if args.tier == 'thorough':
        tasks += [(args.tier, 64, 'loop', p, 5) for p in range(5)] + [(args.tier, 32, 'cat', p, 12) for p in range(12)]
    tasks += [(args.tier, w, 'small', p, 8) for w in widths for p in range(8)]
    tasks += [('window', args.tier, route, p, 4) for route in ('pump', 'key-source', 'present') for p in range(4)]
    if args.only:
        tasks = [t for t in tasks if args.only in t[2] or (args.only == 'window' and t[0] == 'window')]
    total, hist, samples = {}, {}, []
    for stats, h, res, smp in pmap(work, tasks, args.jobs):
        for k, v in stats.items():
            total[k] = total.get(k, 0) + v
        for k, v in h.items():
            hist[k] = hist.get(k, 0) + v
        run.merge(res)
        samples += smp[:1]
    cov = {
        'evaluations': total.get('runs', 0),
        'distinct_nontrivial': total.get('fired', 0),
        'rule': 'evaluations = faulted runs (program, IO call index k, fault kind, engine/storage/ring mode), all distinct by '
                'construction; non-trivial = the fault actually fired (the run reached IO call k)',
        'samples': samples or [{'note': 'no sample collected'}],
        'programs': total.get('programs', 0),
        'fault_points': total.get('fault_points', 0),
        'outcome_histogram': hist,
        'bounds': {'modes': [m[0] for m in MODES], 'fault_kinds': list(KINDS), 'widths': list(widths),
                   'programs': 'first image per behaviour key of the C01 in6/one4 enumerations with 2..8 IO calls, an endless '
                               'output loop (incl. a pending interrupt after 2^18+5 calls), stl cat.fj'},
        'exhaustive': True,
    }
    return run.finish(cov, assumptions=[
        'R1 is the machine definition',
        'a pending interrupt is produced deterministically by a pure-C device callable (PyErr_SetInterrupt); real asynchronous '
        'signal delivery at other eval-breaker points of the python loops is outside the explored set',
        'for exceptions that propagate out of run() the op count is not observable; memory and device-side calls are'])


if __name__ == '__main__':
    main_guard(main)
