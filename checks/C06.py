"""C06 - writing then reading an .fjm preserves the memory image in every version.

K1 sequence enumeration on the real Writer/Reader: every single-segment call sequence over an edge
alphabet (starts, data word lists, lengths around the dense/lazy threshold, data ranges: exact /
shorter / shared / overlapping / past the pool / odd) and every two-segment sequence over a
collision alphabet (adjacent, overlapping, same, before, far) x w in {8,16,32,64} x version in
{0,1,2,3} (x lzma presets). Oracle: the .fjm model R2 (fjv/ref/fjm.py) - accept/reject agreement,
exact image, invalid neighbours, cross-version equality; assembled stl programs across versions.
"""
import itertools
import sys

from fjv.bind import bind
from fjv.runner import Run, Sieve, parse_args, pmap, load_replay, main_guard

PROP = 'C06'
U64 = 1 << 64


def data_lists(w):
    mask = (1 << w) - 1
    half = 1 << (w - 1)
    return [[], [0, 1], [mask, half], [1, 2], [0, 1, 2, 3], [half, mask, 1, 0], [1], [0, 1, 2], [0, 1 << w], [-1, 0], [3, mask + 5]]


def single_specs(w, tier):
    """(start, dlist, range_kind, length_kind)"""
    ww = w.bit_length() - 1
    starts = [0, 2, 4, (1 << 14) - 2, (1 << (w - ww)) - 2, 1 << 63, U64 - 2, 1, -2, U64]
    ranges = ['exact', 'short', 'past', 'odd', 'shifted', 'empty']
    lengths = ['same', '+2', '+998', '+1000', '+1002', 'zero', '-2', '+1', 'huge']
    for s in starts:
        for d in range(len(data_lists(w))):
            for r in ranges:
                for ln in lengths:
                    yield ((s, d, r, ln),)


def pair_specs(w, tier):
    firsts = [(s, d, 'exact', ln) for s in (0, 4, (1 << 14) - 2) for d in (1, 2, 4) for ln in ('same', '+2', '+1000')]
    # a first segment WITHOUT data (a reserve): empty data block, or no words taken from a non-empty one
    firsts += [(s, 0, 'exact', ln) for s in (0, 4) for ln in ('+2', '+1000')] + [(s, 1, 'empty', '+2') for s in (0, 4)]
    for f in firsts:
        for s2 in ('adjacent', 'overlap_last', 'same', 'before', 'before_overlap', 'far', 'zero'):
            for d2 in (3, 0, 4):
                for r2 in ('exact', 'prev', 'overlap_prev', 'past'):
                    for l2 in ('same', '+2', '+1002', 'huge'):
                        yield (f, (s2, d2, r2, l2))


def triple_specs(w, tier):
    for f in [(0, 1, 'exact', 'same'), (4, 4, 'exact', '+1000'), ((1 << 14) - 2, 2, 'exact', '+1002')]:
        for s2 in ('adjacent', 'far', 'overlap_last', 'same'):
            for r2 in ('exact', 'prev'):
                for s3 in ('adjacent', 'same', 'before', 'far'):
                    for d3 in (3, 0):
                        for r3 in ('exact', 'prev', 'overlap_prev'):
                            yield (f, (s2, 3, r2, '+2'), (s3, d3, r3, 'same'))
                            yield (f, (s2, 3, r2, '+1002'), (s3, d3, r3, '+1000'))
    # segments added in a non-ascending order: a high first segment, a second one below it (or far above it), a third one placed
    # relative to the FIRST (overlapping its tail / head / inside it: refused; adjacent to it: fine)
    for f in [((1 << 14) - 2, 4, 'exact', '+2'), (64, 1, 'exact', '+1000'), (1 << 40, 4, 'exact', 'same')]:
        for s2 in ('before', 'zero', 'far', 'adjacent'):
            for l2 in ('same', '+2'):
                for s3 in ('first_same', 'first_overlap_last', 'first_overlap_head', 'first_adjacent', 'first_inside'):
                    for d3 in (3, 0):
                        for l3 in ('same', '+2'):
                            yield (f, (s2, 3, 'exact', l2), (s3, d3, 'exact', l3))
    # a data-less segment (reserve) in the middle / at the start, then segments with data
    for f in [(0, 1, 'exact', 'same'), (0, 0, 'exact', '+2')]:
        for s2 in ('adjacent', 'far'):
            for mid in ((s2, 0, 'exact', '+2'), (s2, 0, 'exact', '+1002'), (s2, 3, 'empty', '+2')):
                for s3 in ('adjacent', 'before', 'far'):
                    for d3 in (3, 4):
                        for r3 in ('exact', 'prev'):
                            yield (f, mid, (s3, d3, r3, 'same'))


def materialize(specs, w):
    """spec tuple -> list of writer calls [('data', words) | ('seg', start, length, ds, dl)]"""
    calls = []
    pool_len = 0
    prev = None  # (start, length, ds, dl)
    first = None
    dls = data_lists(w)
    for (s, d, r, ln) in specs:
        words = dls[d]
        ds0 = pool_len
        calls.append(('data', list(words)))
        pool_len += len(words)
        n = len(words)
        if r == 'exact':
            ds, dl = ds0, n
        elif r == 'short':
            ds, dl = ds0, max(n - 2, 0)
        elif r == 'past':
            ds, dl = ds0, n + 2
        elif r == 'odd':
            ds, dl = ds0, max(n - 1, 0) if n % 2 == 0 else n
        elif r == 'shifted':
            ds, dl = ds0 + 1, max(n - 1, 0)
        elif r == 'empty':
            ds, dl = ds0, 0
        elif r == 'prev':
            ds, dl = (prev[2], prev[3]) if prev else (ds0, n)
        elif r == 'overlap_prev':
            ds, dl = (prev[2] + prev[3] - 1, 2) if prev and prev[3] else (ds0, n)
        else:
            raise ValueError(r)
        length = {'same': dl, '+2': dl + 2, '+998': dl + 998, '+1000': dl + 1000, '+1002': dl + 1002, 'zero': 0, '-2': dl - 2,
                  '+1': dl + 1, 'huge': 1 << 40}[ln]
        if isinstance(s, str) and s.startswith('first_'):
            fs, fl = first[0], first[1]   # placed relative to the FIRST segment (segments need not come in ascending order)
            start = {'first_same': fs, 'first_overlap_last': fs + fl - 2, 'first_overlap_head': max(fs - length + 2, 0), 'first_adjacent': fs + fl,
                     'first_inside': fs + 2}[s]
        elif isinstance(s, str):
            ps, pl = prev[0], prev[1]
            start = {'adjacent': ps + pl, 'overlap_last': ps + pl - 2, 'same': ps, 'before': ps - length if ps - length >= 0 else ps + pl,
                     'before_overlap': max(ps - length + 2, 0), 'far': 1 << 40, 'zero': 0}[s]
        else:
            start = s
        calls.append(('seg', start, length, ds, dl))
        prev = (start, length, ds, dl)
        first = first or prev
    return calls


def classify(calls, w, version):
    """R2: None if the call sequence denotes a representable image, else the reason it must be rejected."""
    pool = []
    segs = []
    for c in calls:
        if c[0] == 'data':
            pool += c[1]
            continue
        _, start, length, ds, dl = c
        if not (0 <= start < U64) or not (0 <= length < U64) or not (0 <= ds < U64) or not (0 <= dl < U64):
            return 'field outside u64'
        if length <= 0:
            return 'non-positive length'
        if dl > length:
            return 'data longer than segment'
        if start % 2 or length % 2:
            return 'odd start/length'
        if dl % 2:
            return 'odd data length'
        if ds + dl > len(pool):
            return 'data range outside the pool'
        for (s2, l2, ds2, dl2) in segs:
            if start < s2 + l2 and s2 < start + length:
                return 'address overlap'
            if version in (2, 3) and dl and dl2 and ds < ds2 + dl2 and ds2 < ds + dl:
                return 'data sharing in a relative-jump version'
        segs.append((start, length, ds, dl))
    if any(not (0 <= x < (1 << w)) for x in pool):
        return 'word outside [0, 2^w)'
    return None


def natural_image(calls, w):
    """the image the calls denote (data then zeros), independent of any version."""
    from fjv.ref import fjm as R2
    pool, words, lazy, segs = [], {}, [], []
    for c in calls:
        if c[0] == 'data':
            pool += c[1]
            continue
        _, start, length, ds, dl = c
        for i in range(dl):
            words[start + i] = pool[ds + i]
        if length > dl:
            if length - dl < R2.DENSE_THRESHOLD:
                for i in range(dl, length):
                    words[start + i] = 0
            else:
                lazy.append((start + dl, start + length))
        segs.append((start, length))
    return words, lazy, segs


LOG = []  # per add_segment call of the last run_case: (call index, accepted?, the calls accepted before it, the call)


def run_case(calls, w, version, path, preset=None, rewrites=0):
    """drive the real Writer then Reader. a call rejected with FlipJumpWriteFjmException is SKIPPED and the
    sequence goes on (a rejected call must leave the writer unchanged).
    returns (outcome, detail, reader_or_None, accepted_calls)."""
    from flipjump.fjm.fjm_consts import FJMVersion
    from flipjump.fjm.fjm_writer import Writer
    from flipjump.fjm.fjm_reader import Reader
    from flipjump.utils.exceptions import FlipJumpWriteFjmException, FlipJumpReadFjmException
    kw = {} if preset is None else {'lzma_preset': preset}
    accepted = []
    detail = ''
    LOG.clear()
    try:
        wr = Writer(path, w, FJMVersion(version), **kw)
        for c in calls:
            try:
                if c[0] == 'data':
                    wr.add_data(list(c[1]))
                else:
                    wr.add_segment(c[1], c[2], c[3], c[4])
                if c[0] == 'seg':
                    LOG.append((len(LOG), True, repr(accepted), c))
                accepted.append(c)
            except FlipJumpWriteFjmException as e:
                detail = detail or str(e)[:80]
                if c[0] == 'seg':
                    LOG.append((len(LOG), False, repr(accepted), c))
                if c[0] == 'data':
                    accepted.append(('data', []))  # a refused data block adds nothing (indices of later blocks are the writer's)
                    return 'rejected', detail, None, accepted
        if not any(c[0] == 'seg' for c in accepted):
            return 'rejected', detail, None, accepted
        wr.write_to_file()
        for _ in range(rewrites):
            wr.write_to_file()   # writing the same writer again gives the same file (the writer's state is not consumed by a write)
    except FlipJumpWriteFjmException as e:
        return 'rejected', str(e)[:80], None, accepted
    except Exception as e:  # noqa
        return 'raw-exception', f'{type(e).__name__}: {str(e)[:80]}', None, accepted
    try:
        r = Reader(path)
    except FlipJumpReadFjmException as e:
        return 'reader-refused', str(e)[:100], None, accepted
    except Exception as e:  # noqa
        return 'reader-raw-exception', f'{type(e).__name__}: {str(e)[:80]}', None, accepted
    return 'loaded', '', r, accepted


def compare_loaded(r, calls, w):
    """reader view vs the natural image. list of problems."""
    from fjv.ref import fjm as R2
    from flipjump.utils.exceptions import FlipJumpRuntimeMemoryException
    problems = []
    words, lazy, segs = natural_image(calls, w)
    rw, rl, rs = R2.reader_image(r)
    if r.memory_width != w:
        problems.append(('memory_width', w, r.memory_width))
    if rs != segs:
        problems.append(('segments', segs, rs))
    ww = w.bit_length() - 1
    bit_words = 1 << (w - ww)
    probes = set(words)
    for a, b in lazy:
        probes.update((a, a + 1, b - 1, (a + b) // 2))
    for s, l in segs:
        probes.update((s, s + l - 1))
    for wa in sorted(probes):
        exp = R2.value_at(words, lazy, segs, wa)
        got = R2.value_at(rw, rl, rs, wa)
        if got != exp:
            problems.append((f'word[{wa}] (structural)', exp, got))
            break
        if wa < bit_words - 1:
            try:
                g2 = r.get_word(wa * w)
            except Exception as e:  # noqa
                g2 = type(e).__name__
            if g2 != exp:
                problems.append((f'get_word({wa}*w)', exp, g2))
                break
    stray = [k for k in rw if R2.value_at({}, [], segs, k) is None]
    if stray:
        problems.append(('words outside every segment', [], stray[:4]))
    for s, l in segs:
        for wa in (s - 1, s + l):
            if 0 <= wa < bit_words - 1 and R2.value_at(words, lazy, segs, wa) is None:
                try:
                    r.get_word(wa * w)
                    problems.append((f'get_word({wa}*w) outside every segment', 'FlipJumpRuntimeMemoryException', 'returned'))
                except FlipJumpRuntimeMemoryException:
                    pass
                except Exception as e:  # noqa
                    problems.append((f'get_word({wa}*w) outside every segment', 'FlipJumpRuntimeMemoryException', type(e).__name__))
    return problems


def check_sequence(specs, w, path, sieve, stats, presets=(None,), rewrites=0):
    from fjv.ref import fjm as R2
    calls = materialize(specs, w)
    images = {}
    logs = {}
    for version in (0, 1, 2, 3):
        for preset in (presets if version == 3 else (None,)):
            outcome, detail, r, accepted = run_case(calls, w, version, path, preset, rewrites)
            logs[(version, preset)] = list(LOG)
            why = classify(accepted if outcome not in ('rejected', 'raw-exception') else calls, w, version)
            if outcome == 'loaded' and len(accepted) < len(calls):
                stats['continued_after_a_rejected_call'] = stats.get('continued_after_a_rejected_call', 0) + 1
            stats['runs'] += 1
            stats[outcome] = stats.get(outcome, 0) + 1
            case = {'w': w, 'version': version, 'preset': preset, 'calls': calls, 'spec': [list(map(str, s)) for s in specs], 'rewrites': rewrites}

            def bad(kind, expected, observed):
                sieve.add({'kind': kind, 'class': f'{kind} | {why} | {detail.split(":")[0][:40] if outcome != "loaded" else ""} | v{version}', 'case': case, 'expected': expected, 'observed': observed, 'r2_reason': why, 'outcome': outcome,
                           'detail': detail, 'summary': f'w={w} v={version} {kind}: {detail or observed} (R2: {why or "representable"})'})

            if outcome in ('raw-exception', 'reader-raw-exception'):
                bad(outcome, 'FlipJumpWriteFjmException or a loadable file', detail)
            elif outcome == 'reader-refused':
                bad('writer accepted a file the reader refuses', 'rejected by the writer, or loadable', detail)
            elif outcome == 'loaded':
                if why is None:
                    stats['valid_loaded'] += 1
                problems = compare_loaded(r, accepted, w)
                if problems:
                    bad('loaded image differs' if why is None else 'unrepresentable input accepted and loaded differently',
                        {p[0]: p[1] for p in problems}, {p[0]: p[2] for p in problems})
                elif why is not None:
                    stats['lenient_accept'] = stats.get('lenient_accept', 0) + 1
                images[(version, preset)] = (repr(accepted), R2.normalize(*R2.reader_image(r)))
            elif outcome == 'rejected' and why is None:
                stats['valid_rejected'] = stats.get('valid_rejected', 0) + 1
    # the same call in the same writer state is accepted under one version and refused under another, although the format of the
    # refusing version can represent it (R2): whether a program can be written must not depend on the version either
    import ast
    for (v, pz), log in logs.items():
        for (i, ok, before, c) in log:
            if ok:
                continue
            others = [(v2, p2) for (v2, p2), l2 in logs.items() if v2 != v and i < len(l2) and l2[i][1] and l2[i][2] == before]
            if others and classify(ast.literal_eval(before) + [c], w, v) is None:
                stats['version_dependent_refusal'] = stats.get('version_dependent_refusal', 0) + 1
                sieve.add({'kind': 'a call the format can represent is refused under one version and accepted under another', 'class': f'version-dependent refusal v{v}',
                           'case': {'w': w, 'version': v, 'preset': pz, 'calls': calls, 'refused_call': list(c), 'accepted_before': before, 'accepted_under': [list(o) for o in others]},
                           'expected': 'accepted (R2: representable)', 'observed': 'FlipJumpWriteFjmException', 'r2_reason': None, 'outcome': 'rejected', 'detail': '',
                           'summary': f'w={w} v={v}: add_segment{tuple(c[1:])} refused after {before[:80]} but accepted under versions {[o[0] for o in others]}'})
                break
    by_accepted = {}
    for k, (acc, img) in images.items():
        by_accepted.setdefault(acc, set()).add(repr(img))
    if any(len(v) > 1 for v in by_accepted.values()):  # versions that accepted the same calls must load the same image
        sieve.add({'kind': 'image depends on the version', 'case': {'w': w, 'calls': calls}, 'expected': 'identical images',
                   'observed': {str(k): repr(v)[:200] for k, v in images.items()}, 'r2_reason': None, 'outcome': 'loaded', 'detail': '',
                   'summary': f'w={w}: versions load different images for the same calls'})
    return calls


def work(task):
    from fjv.enginecheck import scratch
    kind = task[0]
    sieve = Sieve(PROP, MATCHERS)
    stats = {'runs': 0, 'sequences': 0, 'valid_loaded': 0}
    sample = None
    if kind == 'asm':
        return work_asm(task, sieve, stats)
    if kind == 'bigpool':
        return work_bigpool(task, sieve, stats)
    _, tier, w, fam, part, nparts = task
    gen = {'single': single_specs, 'pair': pair_specs, 'triple': triple_specs}[fam](w, tier)
    path = scratch() / f'c06-{w}.fjm'
    presets = (0, 6, 9) if (tier == 'thorough' or fam == 'triple') else (None,)
    valid_keys = set()
    for i, specs in enumerate(gen):
        if i % nparts != part:
            continue
        stats['sequences'] += 1
        before = stats['valid_loaded']
        calls = check_sequence(specs, w, path, sieve, stats, presets)
        if fam == 'pair':
            check_sequence(specs, w, path, sieve, stats, presets, rewrites=1 + i % 2)   # the file written twice / three times by one writer
        if stats['valid_loaded'] > before:
            valid_keys.add(repr(calls))
            if sample is None and len(specs) > 1:
                sample = {'w': w, 'calls': calls}
    stats['distinct_valid'] = len(valid_keys)
    return stats, sieve.result(), sample


def work_bigpool(task, sieve, stats):
    """one data pool larger than every LZMA dictionary threshold below it that repeats itself at a distance above 8 MiB
    (finding F20): the compressed version must read back like the others, for every preset."""
    import random
    from fjv.enginecheck import scratch
    from flipjump.fjm.fjm_consts import FJMVersion
    from flipjump.fjm.fjm_reader import Reader
    from flipjump.fjm.fjm_writer import Writer
    _, tier, w, preset = task
    rnd = random.Random(20)  # a fixed incompressible block, not a sample: only its size and its repetition matter
    nblock = (9 << 20) // (w // 8)
    nblock += nblock & 1
    block = [rnd.getrandbits(w) for _ in range(nblock)]
    data = block + block
    path = scratch() / f'c06-big-{w}-{preset}.fjm'
    case = {'w': w, 'version': 3, 'preset': preset, 'family': 'bigpool', 'words': len(data), 'block_bytes': nblock * w // 8}
    stats['runs'] += 1
    stats['sequences'] += 1
    try:
        wr = Writer(path, w, FJMVersion(3), lzma_preset=preset)
        ds = wr.add_data(data)
        wr.add_segment(0, len(data), ds, len(data))
        wr.write_to_file()
    except Exception as e:  # noqa
        sieve.add({'kind': 'big data pool rejected by the writer', 'class': 'bigpool write', 'case': case, 'expected': 'written',
                   'observed': f'{type(e).__name__}: {str(e)[:100]}', 'summary': f'w={w} preset={preset}: a {len(data)}-word pool was not written'})
        return stats, sieve.result(), None
    try:
        r = Reader(path)
        bad = sum(1 for i, v in enumerate(data) if r.memory.get(i, 0) != v)
        obs = None if not bad else f'{bad} words differ'
    except Exception as e:  # noqa
        obs = f'{type(e).__name__}: {str(e)[:100]}'
    path.unlink()
    if obs:
        sieve.add({'kind': 'accepted by the writer, refused or loaded differently by the reader', 'class': 'bigpool read', 'case': case,
                   'expected': 'the written words', 'observed': obs,
                   'summary': f'w={w} v=3 preset={preset}: a {len(data) * w // 8 >> 20} MiB pool repeating at a distance of 9 MiB does not read back: {obs}'})
    else:
        stats['valid_loaded'] += 1
        stats['distinct_valid'] = 1
    return stats, sieve.result(), None


def work_asm(task, sieve, stats):
    """assembled programs load to the same image under all four versions."""
    from fjv.asm import assemble_files
    from fjv.enginecheck import scratch
    from fjv.ref import fjm as R2
    from fjv import REPO
    from flipjump.fjm.fjm_reader import Reader
    _, tier, w, prog = task
    imgs = {}
    for version in (0, 1, 2, 3):
        out = scratch() / f'asm-{w}-{version}.fjm'
        try:
            assemble_files([REPO / prog], out, w=w, version=version)
        except Exception as e:  # noqa  (e.g. the program does not fit the 16-bit address space: not this property)
            stats['asm_not_assemblable'] = stats.get('asm_not_assemblable', 0) + 1
            stats['distinct_valid'] = 0
            return stats, sieve.result(), {'skipped': f'{prog} w={w}: {type(e).__name__}'}
        r = Reader(out)
        imgs[version] = R2.normalize(*R2.reader_image(r))
        stats['runs'] += 1
        # and the file decodes to the same image under the independent parser
        p = R2.parse(out.read_bytes())
        if R2.normalize(*R2.image(p)) != imgs[version] or R2.inconsistencies(p):
            sieve.add({'kind': 'assembled file: reader image differs from the format model', 'case': {'w': w, 'version': version, 'program': prog},
                       'expected': 'R2 image', 'observed': 'different', 'r2_reason': None, 'outcome': 'loaded', 'detail': str(R2.inconsistencies(p))[:200],
                       'summary': f'{prog} w={w} v={version}: Reader image != independent decoding'})
    stats['sequences'] += 1
    if len(set(map(repr, imgs.values()))) > 1:
        sieve.add({'kind': 'assembled image depends on the version', 'case': {'w': w, 'program': prog}, 'expected': 'identical', 'observed': 'different',
                   'r2_reason': None, 'outcome': 'loaded', 'detail': '', 'summary': f'{prog} w={w}: versions differ'})
    stats['valid_loaded'] += 4
    stats['distinct_valid'] = 1
    return stats, sieve.result(), {'assembled': prog, 'w': w, 'words': len(imgs[0][0])}


# ---- known findings ------------------------------------------------------------------------
def k_odd_data_length(rec, sig):
    return rec.get('r2_reason') == 'odd data length' and rec['outcome'] == 'reader-refused'


def k_data_past_pool(rec, sig):
    return rec.get('r2_reason') == 'data range outside the pool' and (
        rec['outcome'] == 'reader-refused' or (rec['outcome'] == 'raw-exception' and rec['detail'].startswith('IndexError')))


def k_word_range(rec, sig):
    if rec.get('r2_reason') != 'word outside [0, 2^w)':
        return False
    return (rec['outcome'] == 'raw-exception' and rec['detail'].startswith('struct.error')) or rec['outcome'] == 'loaded'


def k_u64(rec, sig):
    return rec.get('r2_reason') == 'field outside u64' and rec['outcome'] == 'raw-exception' and rec['detail'].startswith('struct.error')


MATCHERS = {'writer_accepts_odd_data_length': k_odd_data_length, 'writer_data_range_past_pool': k_data_past_pool,
            'writer_word_out_of_range': k_word_range, 'writer_field_outside_u64': k_u64}


def make_tasks(tier, only=None):
    tasks = []
    widths = (8, 16, 32, 64)
    for w in widths:
        for p in range(6):
            tasks.append(('seq', tier, w, 'single', p, 6))
        for p in range(6):
            tasks.append(('seq', tier, w, 'pair', p, 6))
        tasks.append(('seq', tier, w, 'triple', 0, 1))
    progs = ['programs/print_tests/hello_world.fj', 'programs/print_tests/cat.fj']
    if tier == 'thorough':
        progs += ['programs/func_tests/func1.fj']
    for prog in progs:
        for w in ((64, 32, 16) if tier == 'thorough' else (64, 32)):
            tasks.append(('asm', tier, w, prog))
    for preset in ((9, 7) if tier != 'thorough' else (9, 8, 7, 6)):
        tasks.insert(0, ('bigpool', tier, 64, preset))
    if tier == 'thorough':
        tasks.insert(0, ('bigpool', tier, 32, 9))
    if only:
        tasks = [t for t in tasks if only in (t[0], t[3] if len(t) > 3 else '')]
    return tasks


def replay(args):
    from fjv.enginecheck import scratch
    rec = load_replay(args.replay)
    c = rec['case']
    if c.get('family') == 'bigpool':
        stats, res, _ = work(('bigpool', 'quick', c['w'], c['preset']))
        for rec2 in res[0]:
            print('PROBLEM', rec2['summary'])
        if res[0]:
            print(f'VIOLATION property={PROP} replay={args.replay}')
            return 1
        print('replay: ok')
        return 0
    if 'refused_call' in c:
        calls = [tuple(x) for x in c['calls']]
        logs = {}
        for v in (0, 1, 2, 3):
            run_case(calls, c['w'], v, scratch() / 'replay.fjm', 6 if v == 3 else None)
            logs[v] = list(LOG)
        v = c['version']
        hit = [(i, before) for (i, ok, before, call) in logs[v] if not ok and list(call) == list(c['refused_call'])
               and any(i < len(l2) and l2[i][1] and l2[i][2] == before for v2, l2 in logs.items() if v2 != v)]
        print('refused under version', v, ':', hit)
        if hit:
            print(f'VIOLATION property={PROP} replay={args.replay}')
            return 1
        print('replay: ok')
        return 0
    if 'calls' not in c or 'version' not in c:
        print('replay of cross-version / assembled cases: re-run the check')
        return 1
    calls = [tuple(x) for x in c['calls']]
    outcome, detail, r, accepted = run_case(calls, c['w'], c['version'], scratch() / 'replay.fjm', c.get('preset'))
    why = classify(accepted if outcome not in ('rejected', 'raw-exception') else calls, c['w'], c['version'])
    print('calls:', calls, '\nR2:', why or 'representable', '\noutcome:', outcome, detail)
    problems = compare_loaded(r, accepted, c['w']) if r is not None else []
    print('image problems:', problems)
    if outcome in ('raw-exception', 'reader-raw-exception', 'reader-refused') or problems:
        print(f'VIOLATION property={PROP} replay={args.replay}')
        return 1
    print('replay: ok')
    return 0


def main():
    args = parse_args(PROP)
    bind('plain')
    if args.replay:
        return replay(args)
    run = Run(PROP, 'exploration', args, MATCHERS)
    total, samples = {}, []
    for stats, res, sample in pmap(work, make_tasks(args.tier, args.only), args.jobs):
        for k, v in stats.items():
            total[k] = total.get(k, 0) + v
        run.merge(res)
        if sample and len(samples) < 3:
            samples.append(sample)
    vac = [k for k in ('loaded', 'rejected') if not total.get(k)]
    if vac:
        print(f'CHECK-INTERNAL-ERROR vacuous exploration: no case was {vac}', file=sys.stderr)
    cov = {
        'evaluations': total.get('runs', 0),
        'distinct_nontrivial': total.get('distinct_valid', 0),
        'rule': 'evaluations = (call sequence, width, version, preset) write+read runs; non-trivial = distinct call sequences that '
                'denote a representable image and were written, loaded and compared word by word (counted as a set of call lists per worker slice)',
        'samples': samples or [{'note': 'none'}],
        'call_sequences': total.get('sequences', 0),
        'outcomes': {k: total.get(k, 0) for k in ('loaded', 'rejected', 'reader-refused', 'raw-exception', 'reader-raw-exception',
                                                  'valid_rejected', 'lenient_accept')},
        'bounds': {'segments_per_file': 3, 'widths': [8, 16, 32, 64], 'versions': [0, 1, 2, 3], 'lzma_presets': [0, 6, 9]},
        'exhaustive': not vac,
    }
    code = run.finish(cov, assumptions=[
        'R2 (fjv/ref/fjm.py) is the format; the dense/lazy threshold (1000 words) is only a representation detail and both forms are compared by value',
        'a representable input that the writer rejects is counted (valid_rejected) but is not a violation of this property'])
    return 2 if vac and not code else code


if __name__ == '__main__':
    main_guard(main)
