"""C15 - debugging never changes the program and stops exactly where asked.

Explicit-state exploration of debugger sessions (K2a): programs (R1-terminating images with IO,
unaligned / self-modifying ops, one ending in a memory fault) x breakpoint sets (every subset of
size <= 2 of the visited op addresses + a never-visited address) x ALL command scripts of length
<= 3 (thorough 4) over a 17-command alphabet (step, skip N incl. 0 / negative / garbage, continue,
continue-all in its three spellings, reads of words / unaligned / out-of-memory addresses / hex, bit
and byte variables, help, unknown commands, empty lines, quit; a script that runs out is EOF).
Driven through fjm_run.run(breakpoint_handler=...) with stdin/stdout replaced. Oracle R8: a
debugger model over the reference machine's trace (pause list, values shown by reads, termination,
op count, output, final memory).
"""
import io
import itertools
import re
import sys

from fjv.bind import bind
from fjv.runner import Run, Sieve, parse_args, pmap, load_replay, main_guard, watchdog, Watchdog

PROP = 'C15'
H = 40
DATA_SEG = 12  # word address of the extra data segment


def with_data_segment(image):
    """add a never-executed data segment whose jump words carry distinctive data bits (0x2E7, 0x1B4)"""
    from fjv.ref import machine as R1
    w = image.w
    sh = w.bit_length()
    m = (1 << w) - 1
    data = dict(image.data)
    # data bits above every cell size (1 / 4 / 8) and asymmetric, so that a read which lets one cell's upper bits leak into the next
    # cell, or swaps / merges cells, shows another value (0xA5 / 0x5A were symmetric: a leaking read gave the same numbers)
    data.update({DATA_SEG: 3, DATA_SEG + 1: ((0x2E7 << sh) | 1) & m, DATA_SEG + 2: 0, DATA_SEG + 3: ((0x1B4 << sh) | 2) & m})
    segs = list(image.segments) + [(DATA_SEG, 4)]
    if w >= 16:
        # one op in a segment that ends exactly at the top of the address space: its jump word is the LAST word of the memory (`r 2^w-w`)
        top = (1 << w) // w
        segs.append((top - 2, 2))
        data.update({top - 2: 0, top - 1: ((0x155 << sh) | 5) & m})
    return R1.Image(w, segs, data)


def labels(w):
    """the debugger's label table: full label names, two of them spelled with hex digits only (a label wins over a number)"""
    return {'cafe': DATA_SEG * w, 'c0': 0, 'ns.sub.x': w}


def commands(w, image, base=None):
    """the command alphabet (text, kind, arg)"""
    a_code = 0
    a_data = w  # the jump word of op 0
    far = (1 << w) - w
    dv = DATA_SEG * w  # a data segment with rich data bits (never executed)
    return [
        ('s', 'step', None), ('step', 'step', None), ('s 1', 'skip', 1), ('s 2', 'skip', 2), ('skip 0x3', 'skip', 3),
        ('s 0', 'bad', None), ('s -1', 'bad', None), ('s x', 'bad', None), ('step 2', 'bad', None),
        ('c', 'cont', None), ('c*', 'contall', None), ('Continue All', 'contall', None),
        (f'r {a_data}', 'read', ('word', a_data)), (f'r {hex(a_code)}', 'read', ('word', a_code)), ('r 3', 'read', ('unaligned', 3)),
        (f'r :h1:{a_code}', 'read', ('var', 'h', 1, a_code)), (f'read :b2:{a_code}', 'read', ('var', 'b', 2, a_code)),
        (f'r :B2:{dv}', 'read', ('var', 'B', 2, dv)), (f'r :h2:{dv}', 'read', ('var', 'h', 2, dv)), (f'r :b2:{dv}', 'read', ('var', 'b', 2, dv)),
        (f'r :B1:{2 * w}', 'read', ('var', 'B', 1, 2 * w)), (f'r {far}', 'read', ('word', far)), ('r nolabel', 'read', ('nolabel',)),
        ('r cafe', 'read', ('word', dv)), ('r :B2:cafe', 'read', ('var', 'B', 2, dv)), ('r :h1:c0', 'read', ('var', 'h', 1, a_code)), ('r c0', 'read', ('word', a_code)),
        ('r ns.sub.x', 'read', ('word', a_data)), ('r CAFE', 'read', ('word', 0xCAFE)),
        ('h', 'noop', None), ('foo', 'noop', None), ('', 'noop', None), ('c 5', 'noop', None), ('q', 'quit', None),
    ] + fault_reads(w, base)


def fault_reads(w, base):
    """for a program whose undebugged run ends in a memory error: reads of exactly the word it will fault on (a read must not
    make that word exist), as a word and through a variable read spanning it"""
    if base is None or base.fault is None:
        return []
    fa = base.fault - base.fault % w
    out = [(f'r {fa}', 'read', ('word', fa))]
    if fa >= w:
        out.append((f'r :b1:{fa - w}', 'read', ('var', 'b', 1, fa - w)))
    return out


def machine_at(image, answers, nops):
    from fjv.ref import machine as R1
    return R1.run(image, answers, nops)


def model_read(image, answers, nops, spec, w):
    """-> ('value', v) | ('fail',) for a read at the pause after `nops` executed ops"""
    r = machine_at(image, answers, nops)
    mem = r.mem

    def word(addr):
        wa = addr // w
        if wa in mem:
            return mem[wa]
        return 0 if image.valid(wa) else None
    if spec[0] == 'unaligned' or spec[0] == 'nolabel':
        return ('fail',)
    if spec[0] == 'word':
        if spec[1] % w:
            return ('fail',)
        v = word(spec[1])
        return ('value', v) if v is not None else ('fail',)
    _, t, L, addr = spec
    bits = {'b': 1, 'h': 4, 'B': 8}[t]
    val = 0
    for k in range(L):
        v = word(addr + w + k * 2 * w)
        if v is None:
            return ('fail',)
        val |= ((v >> w.bit_length()) & ((1 << bits) - 1)) << (bits * k)
    return ('value', val)


def model_session(image, answers, base, breakpoints, script, w, cmds):
    """R8. base = fault-free R1 run. -> dict(pauses [(ip, ops)], reads [...], end: ('normal',) | ('quit', ops))"""
    trace = base.trace
    pauses, reads = [], []
    next_break, alive = None, True
    pos = 0
    total_started = len(trace)
    for i in range(total_started):
        ip = trace[i]
        if alive and (next_break == i or ip in breakpoints):
            pauses.append((ip, i))
            while True:
                if pos >= len(script):
                    return {'pauses': pauses, 'reads': reads, 'end': ('quit', i)}
                text, kind, arg = cmds[script[pos]]
                pos += 1
                if kind == 'step':
                    next_break = i + 1
                    break
                if kind == 'skip':
                    next_break = i + arg
                    break
                if kind == 'cont':
                    next_break = None
                    break
                if kind == 'contall':
                    alive = False
                    break
                if kind == 'quit':
                    return {'pauses': pauses, 'reads': reads, 'end': ('quit', i)}
                if kind == 'read':
                    reads.append(model_read(image, answers, i, arg, w))
                # bad / noop: message, re-prompt
    return {'pauses': pauses, 'reads': reads, 'end': ('normal',)}


PAUSE_RE = re.compile(r'Address (0x[0-9a-f]+).*?(\d+) ops executed', re.S)
READ_RE = re.compile(r'==== (Read Memory|Reading FlipJump Variable|Read Memory Failure|Bad memory address|Invalid memory address\.) ====\n(.*?)(?=\n====|\Z)', re.S)
VAL_RE = re.compile(r'= (\d+)  \(or 0x')


def run_session(path, image, answers, breakpoints, script, w, cmds, DEVICE, probe, handler=None, via_debug=None):
    from flipjump.interpreter import fjm_run
    from flipjump.interpreter.debugging.breakpoints import BreakpointHandler
    text = ''.join(cmds[c][0] + '\n' for c in script)
    l2a = labels(w)
    handler = handler or BreakpointHandler({a: None for a in breakpoints}, {a: n for n, a in l2a.items()}, dict(l2a))
    dev = DEVICE(answers)
    so, si = sys.stdout, sys.stdin
    buf = io.StringIO()
    sys.stdout, sys.stdin = buf, io.StringIO(text)
    obs = {'exc': None}
    try:
        with watchdog(10.0):
            if via_debug is not None:
                # the public wrapper flipjump.debug(): (debug file, addresses, labels, substrings, print_termination)
                import flipjump
                dbg_, addrs_, labels_, contains_, term_ = via_debug
                st = flipjump.debug(path, dbg_, breakpoints_addresses=addrs_, breakpoints=labels_, breakpoints_contains=contains_, io_device=dev,
                                    print_time=False, print_termination=term_)
            else:
                st = fjm_run.run(path, breakpoint_handler=handler, io_device=dev, last_ops_debugging_list_length=None)
        obs.update(cause=str(st.termination_cause), ops=st.op_counter, fault=st.memory_error_address)
    except Watchdog:
        obs['exc'] = 'Watchdog'
    except BaseException as e:  # noqa
        obs['exc'] = f'{type(e).__name__}: {str(e)[:80]}'
    finally:
        sys.stdout, sys.stdin = so, si
    out = buf.getvalue()
    obs['pauses'] = [(int(a, 16), int(n)) for a, n in PAUSE_RE.findall(out)]
    rd = []
    for title, body in READ_RE.findall(out):
        m = VAL_RE.search(body)
        if title in ('Read Memory', 'Reading FlipJump Variable') and m:
            rd.append(('value', int(m.group(1))))
        else:
            rd.append(('fail',))
    obs['reads'] = rd
    obs['io'] = list(dev.log)
    if dev.memory is not None and obs['exc'] is None:
        obs['mem'] = {wa: dev.memory.read_word(wa) for wa in probe}
    return obs


def programs(w, tier):
    """deterministic program set: images of the C01 enumerations whose reference run has 4..12 ops,
    first per behaviour key (IO pattern, cause, unaligned, self-modifying)."""
    from fjv.enginecheck import answer_scripts, features
    from fjv.ref import machine as R1
    import checks.C01 as C01
    want = 10 if tier == 'thorough' else 6
    progs, keys = [], set()
    lay = C01.layouts(w, 'quick')
    for name in ('one4', 'in6-0-0', 'in6-1-%d' % (2 * w + 1)):
        if name not in lay:
            continue
        segs, pos, alpha, fixed = lay[name]
        n = 0
        for combo in itertools.product(alpha, repeat=len(pos)):
            n += 1
            if n > 40000 or len(progs) >= want * 2:
                break
            data = dict(fixed)
            data.update(zip(pos, combo))
            image = with_data_segment(R1.Image(w, segs, data))
            for answers, r in answer_scripts(image, 2, H):
                if r.cause in (R1.HORIZON, R1.NEED_INPUT) or not (3 <= len(r.trace) <= 10):
                    continue
                fs = features(r, w)
                key = (r.cause, 'unaligned_op' in fs, 'flips_own_op' in fs, 'output' in fs, 'input' in fs)
                if key in keys:
                    continue
                keys.add(key)
                progs.append((f'{name}#{len(progs)}', image, answers, r))
                break
    # a program that jumps into the lazily-zero tail of a long segment (those words exist without being stored anywhere): breakpoints there
    # pause like anywhere else
    if w >= 16:   # (the 2^8-bit address space has no room for a 1000-word tail)
        lazy = with_data_segment(R1.Image(w, [(0, 8), (20, 2200)], {0: 3 * w + 9, 1: (20 + 1100) * w, 20: 0, 21: 0}))
        r = R1.run(lazy, [], H)
        progs = [('lazy-tail', lazy, [], r)] + progs
    return progs[:want * 2]


def work(task):
    global DEVICE
    from fjv.enginecheck import write_image, probe_words
    from fjv.engines import make_device_class
    tier, w, pi, part, nparts = task
    DEVICE = make_device_class()
    sieve = Sieve(PROP, MATCHERS)
    stats = {'sessions': 0, 'pauses': 0, 'reads': 0, 'states': 0}
    progs = programs(w, tier)
    if pi >= len(progs):
        return stats, sieve.result(), None
    pname, image, answers, base = progs[pi]
    path = write_image(image, f'c15-{w}-{pi}.fjm')
    cmds = commands(w, image, base)
    visited = list(dict.fromkeys(base.trace))
    never = max(visited) + 4 * w
    bsets = [()] + [(a,) for a in visited[:5]] + [tuple(p) for p in itertools.combinations(visited[:4], 2)] + [(never,), (visited[0], never)]
    maxlen = 4 if tier == 'thorough' else 3
    probe = probe_words(image, base)
    sample = None
    states = set()
    idx = 0
    # scripts of 4 commands (thorough) over a core of the alphabet: one command of each kind (all 34^4 scripts x breakpoint sets x programs x
    # widths are 1.6 billion sessions - that tier did not finish in 80 minutes)
    core4 = []
    for i_, c_ in enumerate(cmds):
        if (c_[1], c_[2][0] if isinstance(c_[2], tuple) else None) not in {(cmds[j][1], cmds[j][2][0] if isinstance(cmds[j][2], tuple) else None) for j in core4}:
            core4.append(i_)
    for bset in bsets:
        for L in range(0, maxlen + 1):
            for script in itertools.product(range(len(cmds)) if L < 4 else core4, repeat=L):
                idx += 1
                if idx % nparts != part:
                    continue
                if not bset and L > 0:
                    continue  # without a breakpoint the debugger never prompts
                exp = model_session(image, answers, base, set(bset), script, w, cmds)
                obs = run_session(path, image, answers, set(bset), script, w, cmds, DEVICE, probe)
                stats['sessions'] += 1
                stats['pauses'] += len(exp['pauses'])
                stats['reads'] += len(exp['reads'])
                states.add((tuple(exp['pauses']), exp['end']))
                diffs = []
                if obs['exc']:
                    diffs.append(('exception', None, obs['exc']))
                else:
                    if obs['pauses'] != exp['pauses']:
                        diffs.append(('pauses (address, ops executed)', exp['pauses'], obs['pauses']))
                    if obs['reads'] != exp['reads']:
                        diffs.append(('values shown by reads', exp['reads'], obs['reads']))
                    if exp['end'][0] == 'quit':
                        if obs['cause'] != 'keyboard-interrupt' or obs['ops'] != exp['end'][1]:
                            diffs.append(('quit', ('keyboard-interrupt', exp['end'][1]), (obs['cause'], obs['ops'])))
                    else:
                        if (obs['cause'], obs['ops'], obs['fault']) != (base.cause, base.ops, base.fault):
                            diffs.append(('result differs from the undebugged run', (base.cause, base.ops, base.fault), (obs['cause'], obs['ops'], obs['fault'])))
                        if [tuple(x) for x in obs['io']] != [tuple(x) for x in base.io]:
                            diffs.append(('IO differs from the undebugged run', base.io, obs['io']))
                        if 'mem' in obs:
                            em = {wa: base.mem.get(wa, 0) for wa in obs['mem']}
                            if em != obs['mem']:
                                diffs.append(('final memory', em, obs['mem']))
                if diffs:
                    sieve.add({'kind': 'debugger session differs from the model', 'class': diffs[0][0],
                               'case': {'w': w, 'program': pname, 'image': image.to_json(), 'answers': answers, 'breakpoints': list(bset),
                                        'script': [cmds[c][0] for c in script], 'script_idx': list(script)},
                               'expected': {d[0]: d[1] for d in diffs}, 'observed': {d[0]: d[2] for d in diffs},
                               'ref_trace': base.steps,
                               'summary': f'w={w} {pname} breakpoints={list(bset)} script={[cmds[c][0] for c in script]}: {[d[0] for d in diffs]}'})
                if sample is None and len(exp['pauses']) >= 2 and exp['reads']:
                    sample = {'w': w, 'program': pname, 'breakpoints': list(bset), 'script': [cmds[c][0] for c in script],
                              'model_pauses': exp['pauses'], 'model_reads': exp['reads'], 'end': exp['end']}
    if part == 0:
        label_set_sessions(path, image, answers, base, visited, w, cmds, probe, pname, sieve, stats)
    if part == 1:
        debug_route_sessions(path, image, answers, base, visited, w, cmds, probe, pname, sieve, stats)
    stats['states'] = len(states)
    return stats, sieve.result(), sample


def label_set_sessions(path, image, answers, base, visited, w, cmds, probe, pname, sieve, stats):
    """breakpoints asked for BY LABEL: every subset of three existing and three unknown labels (sorting before / between /
    after them) through get_breakpoint_handler; the debugger stops exactly at the existing ones. done twice in the same process
    and on the same debug-file path: the program is "re-assembled" in between (the same names at other addresses)."""
    from fjv.enginecheck import scratch
    vs = [visited[min(k, len(visited) - 1)] for k in range(4)]
    dbg = scratch() / f'c15-{w}-labels.fjd'
    for rot in (0, 1):
        table = {'lab_b': vs[(0 + rot) % 4], 'main.lab_c': vs[(1 + rot) % 4], 'lab_a': vs[(2 + rot) % 4], 'never': max(visited) + 4 * w,
                 'f1:l3:m(1)---x': vs[(3 + rot) % 4], 'f1:l4:mx1)---y': max(visited) + 6 * w}
        _label_set_sessions(dbg, table, path, image, answers, base, visited, w, cmds, probe, pname, sieve, stats)


def _label_set_sessions(dbg, table, path, image, answers, base, visited, w, cmds, probe, pname, sieve, stats):
    from flipjump.interpreter.debugging.breakpoints import get_breakpoint_handler
    from flipjump.utils.functions import save_debugging_labels
    from fjv.asm import quiet
    save_debugging_labels(dbg, table)
    names = ['lab_a', 'lab_b', 'main.lab_c', 'Lab_a', 'lab_', 'zz_none']
    cont = [i for i, c in enumerate(cmds) if c[0] == 'c'][0]
    for r in range(1, len(names) + 1):
        for sub in itertools.combinations(names, r):
            want = {table[n] for n in sub if n in table}
            for script in ((), (cont,) * 6):
                with quiet():
                    handler = get_breakpoint_handler(dbg, None, set(sub), None)
                exp = model_session(image, answers, base, want, script, w, cmds)
                obs = run_session(path, image, answers, want, script, w, cmds, DEVICE, probe, handler=handler)
                stats['sessions'] += 1
                stats['label_set_sessions'] = stats.get('label_set_sessions', 0) + 1
                bad = obs['exc'] or obs['pauses'] != exp['pauses']
                if bad:
                    sieve.add({'kind': 'breakpoints asked for by label: the debugger does not stop exactly at the existing ones', 'class': 'label set',
                               'case': {'w': w, 'program': pname, 'image': image.to_json(), 'answers': answers, 'label_table': table, 'labels_asked': list(sub),
                                        'script': [cmds[c][0] for c in script]},
                               'expected': {'pauses': exp['pauses']}, 'observed': {'pauses': obs['pauses'], 'exception': obs['exc']}, 'ref_trace': base.steps,
                               'summary': f'w={w} {pname} labels asked={list(sub)} (table {table}): pauses {obs["pauses"]} instead of {exp["pauses"]}'})

    # breakpoints asked for by SUBSTRING (literal text, also text with characters that mean something in a regular expression)
    subs = ['lab_', 'main.', 'm(1)', 'm.1', ')---', '(', 'zz_none', 'x1)', 'm', ':', 'start', 'memory', '-']   # (short / common words too: only the program's labels can match)
    for r in (1, 2):
        for sub in itertools.combinations(subs, r):
            want = {a for nm, a in table.items() if any(x in nm for x in sub)}
            for script in ((), (cont,) * 6):
                try:
                    with quiet():
                        handler = get_breakpoint_handler(dbg, None, None, set(sub))
                except Exception as e:  # noqa
                    sieve.add({'kind': 'breakpoints asked for by substring: building the handler failed', 'class': 'substring set',
                               'case': {'w': w, 'program': pname, 'label_table': table, 'substrings_asked': list(sub)}, 'expected': 'a handler',
                               'observed': f'{type(e).__name__}: {e}', 'summary': f'w={w} substrings {list(sub)}: {type(e).__name__}'})
                    break
                exp = model_session(image, answers, base, want, script, w, cmds)
                obs = run_session(path, image, answers, want, script, w, cmds, DEVICE, probe, handler=handler)
                stats['sessions'] += 1
                stats['label_set_sessions'] = stats.get('label_set_sessions', 0) + 1
                if obs['exc'] or obs['pauses'] != exp['pauses']:
                    sieve.add({'kind': 'breakpoints asked for by substring: the debugger does not stop exactly at the matching labels', 'class': 'substring set',
                               'case': {'w': w, 'program': pname, 'image': image.to_json(), 'answers': answers, 'label_table': table, 'substrings_asked': list(sub),
                                        'script': [cmds[c][0] for c in script]},
                               'expected': {'pauses': exp['pauses']}, 'observed': {'pauses': obs['pauses'], 'exception': obs['exc']}, 'ref_trace': base.steps,
                               'summary': f'w={w} {pname} substrings asked={list(sub)}: pauses {obs["pauses"]} instead of {exp["pauses"]}'})


def debug_route_sessions(path, image, answers, base, visited, w, cmds, probe, pname, sieve, stats):
    """the same sessions through the public wrapper flipjump.debug(): breakpoints given as addresses, as labels, as substrings and as every
    mix of the three (also none at all: the run must simply finish), with and without the termination report"""
    from fjv.enginecheck import scratch
    from flipjump.utils.functions import save_debugging_labels
    from fjv.asm import quiet
    vs = [visited[min(k, len(visited) - 1)] for k in range(3)]
    table = {'lab_a': vs[0], 'main.lab_b': vs[1], 'never': max(visited) + 4 * w}
    dbg = scratch() / f'c15-{w}-debugroute.fjd'
    save_debugging_labels(dbg, table)
    cont = [i for i, c in enumerate(cmds) if c[0] == 'c'][0]
    step = [i for i, c in enumerate(cmds) if c[0] == 's'][0]
    addr_sets = [None, set(), {vs[2]}, {vs[0], max(visited) + 8 * w}]
    label_sets = [None, set(), {'lab_a'}, {'main.lab_b', 'zz_none'}]
    sub_sets = [None, {'lab_'}, {'zz_none'}, {'memory', 'start'}]
    # the same address sets with NO label information at all: no debug file, and a debug file holding an empty table
    empty_dbg = scratch() / f'c15-{w}-debugroute-empty.fjd'
    save_debugging_labels(empty_dbg, {})
    combos = [(dbg, table, a, l_, s_) for a, l_, s_ in itertools.product(addr_sets, label_sets, sub_sets)]
    combos += [(d_, {}, a, None, None) for d_ in (None, empty_dbg) for a in addr_sets + [{vs[0]}, {vs[1], vs[2]}]]
    for dbg, table, addrs, labs, subs in combos:
        want = set(addrs or ()) | {table[n] for n in (labs or ()) if n in table} | {a for nm, a in table.items() if any(x in nm for x in (subs or ()))}
        for script, term in (((cont,) * 6, False), ((step, cont, cont, cont, cont, cont), True)):
            exp = model_session(image, answers, base, want, script, w, cmds)
            with quiet():
                obs = run_session(path, image, answers, want, script, w, cmds, DEVICE, probe, via_debug=(dbg, addrs, labs, subs, term))
            stats['sessions'] += 1
            stats['debug_route_sessions'] = stats.get('debug_route_sessions', 0) + 1
            problems = []
            if obs['exc']:
                problems.append(('exception', None, obs['exc']))
            if obs['pauses'] != exp['pauses']:
                problems.append(('pauses', exp['pauses'], obs['pauses']))
            if not obs['exc'] and exp['end'][0] == 'normal':
                if (obs['cause'], obs['ops'], obs['fault']) != (base.cause, base.ops, base.fault):
                    problems.append(('result differs from the undebugged run', (base.cause, base.ops, base.fault), (obs['cause'], obs['ops'], obs['fault'])))
                if [tuple(x) for x in obs['io']] != [tuple(x) for x in base.io]:
                    problems.append(('IO differs from the undebugged run', base.io, obs['io']))
            if problems:
                sieve.add({'kind': 'flipjump.debug(): the session differs from the debugger model', 'class': f'debug() route {problems[0][0]}',
                           'case': {'w': w, 'program': pname, 'image': image.to_json(), 'answers': answers, 'label_table': table, 'debug_route': True,
                                    'debug_file': 'none' if dbg is None else 'empty table' if not table else 'table',
                                    'addresses': sorted(addrs) if addrs is not None else None, 'labels': sorted(labs) if labs is not None else None,
                                    'substrings': sorted(subs) if subs is not None else None, 'print_termination': term, 'script': [cmds[c][0] for c in script]},
                           'expected': {p_[0]: p_[1] for p_ in problems}, 'observed': {p_[0]: p_[2] for p_ in problems}, 'ref_trace': base.steps,
                           'summary': f'w={w} {pname} flipjump.debug(addresses={addrs}, labels={labs}, substrings={subs}): {problems[0][0]} {problems[0][2]} instead of {problems[0][1]}'})


DEVICE = None


def k_banner(rec, sig):
    """F8: pausing at an op whose flip/jump word cannot be read (outside every segment) ends the run with a memory error raised by the pause banner"""
    steps = rec.get('ref_trace') or []
    return any(f is None or j is None for ip, f, j in steps) and set(rec['expected']) & {'result differs from the undebugged run', 'pauses (address, ops executed)', 'quit'}


MATCHERS = {'pause_banner_reads_unreadable_word': k_banner}


def make_tasks(tier):
    tasks = []
    for w in ((16, 64) if tier != 'thorough' else (8, 16, 32, 64)):
        for pi in range(12 if tier != 'thorough' else 20):
            for part in range(2):
                tasks.append((tier, w, pi, part, 2))
    return tasks


def replay(args):
    global DEVICE
    from fjv.enginecheck import write_image, probe_words
    from fjv.engines import make_device_class
    from fjv.ref import machine as R1
    from fjv.runner import install_watchdog
    install_watchdog()
    DEVICE = make_device_class()
    rec = load_replay(args.replay)
    c = rec['case']
    w = c['w']
    image = R1.Image.from_json(c['image'])
    base = R1.run(image, c['answers'], H)
    cmds = commands(w, image, base)
    handler = None
    if 'substrings_asked' in c:
        from flipjump.interpreter.debugging.breakpoints import get_breakpoint_handler
        from flipjump.utils.functions import save_debugging_labels
        from fjv.enginecheck import scratch
        from fjv.asm import quiet
        dbg = scratch() / 'replay.fjd'
        save_debugging_labels(dbg, c['label_table'])
        with quiet():
            handler = get_breakpoint_handler(dbg, None, None, set(c['substrings_asked']))
        c['breakpoints'] = [a for nm, a in c['label_table'].items() if any(x in nm for x in c['substrings_asked'])]
        c['script_idx'] = [[x[0] for x in cmds].index(t) for t in c.get('script', [])]
    if 'labels_asked' in c:
        from flipjump.interpreter.debugging.breakpoints import get_breakpoint_handler
        from flipjump.utils.functions import save_debugging_labels
        from fjv.enginecheck import scratch
        from fjv.asm import quiet
        dbg = scratch() / 'replay.fjd'
        save_debugging_labels(dbg, c['label_table'])
        with quiet():
            handler = get_breakpoint_handler(dbg, None, set(c['labels_asked']), None)
        c['breakpoints'] = [c['label_table'][n] for n in c['labels_asked'] if n in c['label_table']]
        c['script_idx'] = [[x[0] for x in cmds].index(t) for t in c['script']]
    via_debug = None
    if c.get('debug_route'):
        from flipjump.utils.functions import save_debugging_labels
        from fjv.enginecheck import scratch
        dbg = scratch() / 'replay.fjd'
        save_debugging_labels(dbg, c['label_table'])
        if c.get('debug_file') == 'none':
            dbg = None
        sets = [set(c[k]) if c[k] is not None else None for k in ('addresses', 'labels', 'substrings')]
        via_debug = (dbg, sets[0], sets[1], sets[2], c['print_termination'])
        t = c['label_table']
        c['breakpoints'] = sorted(set(sets[0] or ()) | {t[n] for n in (sets[1] or ()) if n in t} | {a for nm, a in t.items() if any(x in nm for x in (sets[2] or ()))})
        c['script_idx'] = [[x[0] for x in cmds].index(t_) for t_ in c['script']]
    script = tuple(c['script_idx'])
    exp = model_session(image, c['answers'], base, set(c['breakpoints']), script, w, cmds)
    obs = run_session(write_image(image, 'replay.fjm'), image, c['answers'], set(c['breakpoints']), script, w, cmds, DEVICE, probe_words(image, base), handler=handler,
                      via_debug=via_debug)
    print('reference trace:', base.steps, base.cause, base.ops)
    print('model   :', exp)
    print('observed:', {k: v for k, v in obs.items() if k != 'mem'})
    bad = obs['exc'] or obs['pauses'] != exp['pauses'] or obs['reads'] != exp['reads'] or \
        (exp['end'][0] == 'quit' and (obs.get('cause'), obs.get('ops')) != ('keyboard-interrupt', exp['end'][1])) or \
        (exp['end'][0] != 'quit' and (obs.get('cause'), obs.get('ops'), obs.get('fault')) != (base.cause, base.ops, base.fault))
    if bad:
        print(f'VIOLATION property={PROP} replay={args.replay}')
        return 1
    print('replay: ok')
    return 0


def main():
    args = parse_args(PROP)
    bind('plain')
    if args.replay:
        return replay(args)
    run = Run(PROP, 'model_checking', args, MATCHERS)
    total, samples = {}, []
    for stats, res, sample in pmap(work, make_tasks(args.tier), args.jobs):
        for k, v in stats.items():
            total[k] = total.get(k, 0) + v
        run.merge(res)
        if sample and len(samples) < 3:
            samples.append(sample)
    vac = [k for k in ('pauses', 'reads') if total.get(k, 0) < 1000]
    if vac:
        print(f'CHECK-INTERNAL-ERROR vacuous: {vac}', file=sys.stderr)
    cov = {
        'states': total.get('states', 0),
        'transitions': total.get('sessions', 0),
        'traces_validated_against_impl': total.get('sessions', 0),
        'samples': samples or [{'note': 'none'}],
        'pauses_checked': total.get('pauses', 0),
        'read_values_checked': total.get('reads', 0),
        'bounds': {'script_length': 4 if args.tier == 'thorough' else 3, 'commands': len(commands(16, None)), 'breakpoint_sets': 'all subsets of size <= 2 of the first visited op addresses + a never-visited address',
                   'programs': 'first image per behaviour class of the C01 enumerations with 3..10 ops', 'widths': [16, 64] if args.tier != 'thorough' else [8, 16, 32, 64]},
        'exhaustive': not vac,
    }
    code = run.finish(cov, assumptions=[
        'R8 (model_session) over the R1 trace is the debugger specification; the text of messages is parsed only for addresses, op counts and values',
        'breakpoints by label / substring are resolved in C16; here breakpoints are addresses'])
    return 2 if vac and not code else code


if __name__ == '__main__':
    main_guard(main)
