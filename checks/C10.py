"""C10 - reading an .fjm is total; damaged or torn files are rejected.

Fault enumeration (K3) over a corpus produced by the real Writer (all widths x versions x shapes:
single op, multi-segment with a lazily-zero tail, unreferenced trailing data, shared data in v0/v1,
an assembled stl program, v3 with presets 0/9):
  (a) every strict prefix (a write torn at every byte),
  (b) every single-field substitution of every header and segment-table field over an edge alphabet, and every two-field
      damage (+-1, +-2, bit 0) within one segment-table entry,
  (c) single-byte substitutions at every payload position,
  (d) every byte string of length <= 2.
Oracle: Reader either loads or raises FlipJumpReadFjmException (no other exception, no hang, no
allocation unrelated to the file); a prefix that loads must load exactly the original image; a
file that loads must be consistent by the format model R2 and load to R2's image.
"""
import struct
import sys
import tracemalloc

from fjv.bind import bind
from fjv.runner import Run, Sieve, parse_args, pmap, load_replay, main_guard, watchdog, Watchdog

PROP = 'C10'
FIELD_VALUES = [0, 1, 2, 3, (1 << 16) - 1, 1 << 32, 1 << 63, (1 << 64) - 1]


def corpus(tier):
    """[(name, w, version, preset, builder)] - builder(path) writes the file with the real Writer."""
    from flipjump.fjm.fjm_consts import FJMVersion
    from flipjump.fjm.fjm_writer import Writer
    items = []

    def shape(name, calls_of):
        for w in (8, 16, 32, 64):
            for v in (0, 1, 2, 3):
                presets = (0, 9) if v == 3 else (None,)
                for preset in presets:
                    calls = calls_of(w, v)
                    if calls is None:
                        continue

                    def build(path, w=w, v=v, preset=preset, calls=calls):
                        kw = {} if preset is None else {'lzma_preset': preset}
                        wr = Writer(path, w, FJMVersion(v), **kw)
                        for c in calls:
                            if c[0] == 'data':
                                wr.add_data(list(c[1]))
                            else:
                                wr.add_segment(*c[1:])
                        wr.write_to_file()
                    items.append((f'{name}-w{w}-v{v}' + (f'-p{preset}' if preset is not None else ''), w, v, preset, build))

    mask = lambda w: (1 << w) - 1  # noqa
    shape('single', lambda w, v: [('data', [2 * w, 0]), ('seg', 0, 2, 0, 2)])
    space = lambda w: (1 << w) // w  # noqa  (words in the 2^w-bit address space: every corpus image lies inside it)
    shape('multi', lambda w, v: [('data', [0, 4 * w, 5, mask(w)]), ('seg', 0, 4, 0, 4), ('data', [1, 3 * w]), ('seg', 8, min(2002, space(w) // 2 - 8), 4, 2),
                                 ('data', [7, 7]), ('seg', min(2 ** 14 - 2, space(w) - 4), 4, 6, 2)])
    shape('trailing', lambda w, v: [('data', [0, 2 * w, 9, 9, 9, 9]), ('seg', 0, 2, 0, 2)])
    shape('shared', lambda w, v: [('data', [0, 2 * w]), ('seg', 0, 2, 0, 2), ('seg', 4, 2, 0, 2)] if v in (0, 1) else None)
    shape('empty-data', lambda w, v: [('seg', 0, 2, 0, 0)])
    # a reserve-only segment (no data) between / next to segments with data: its start / length fields can be made to overlap them
    shape('reserve-only', lambda w, v: [('data', [0, 2 * w, 5, 6]), ('seg', 0, 4, 0, 4), ('seg', 4, 4, 4, 0), ('data', [7, 8]), ('seg', 8, 2, 4, 2)])

    # large incompressible payloads (several 64 KiB blocks once compressed): deterministic LCG words
    def big(w, v):
        if (w, v) not in ((64, 3), (32, 3)):
            return None
        n = 20000 if w == 64 else 36000
        x, words = 12345, []
        for _ in range(n):
            x = (x * 6364136223846793005 + 1442695040888963407) & ((1 << 64) - 1)
            words.append((x >> 11) & ((1 << w) - 1))
        return [('data', words), ('seg', 0, n, 0, n)]
    shape('big', big)
    return items


def assembled_corpus(tier):
    from fjv.asm import assemble_files
    from fjv import REPO
    items = []
    for w in (64, 32):
        for v in (1, 3):
            def build(path, w=w, v=v):
                assemble_files([REPO / 'programs' / 'print_tests' / 'hello_world.fj'], path, w=w, version=v)
            items.append((f'hello-w{w}-v{v}', w, v, None, build))
    return items


def load(path, limit_bytes=None):
    """Reader(path) + assert_runnable through the public API. -> (outcome, detail, reader, peak)"""
    from flipjump.fjm.fjm_reader import Reader
    from flipjump.utils.exceptions import FlipJumpReadFjmException
    peak = None
    try:
        with watchdog(10.0):
            if limit_bytes is not None:
                tracemalloc.start()
            try:
                r = Reader(path)
            finally:
                if limit_bytes is not None:
                    peak = tracemalloc.get_traced_memory()[1]
                    tracemalloc.stop()
    except FlipJumpReadFjmException as e:
        return 'rejected', str(e)[:80], None, peak
    except Watchdog:
        return 'hang', 'no result after 10 s', None, peak
    except BaseException as e:  # noqa
        return 'raw-exception', f'{type(e).__name__}: {str(e)[:80]}', None, peak
    try:
        r.assert_runnable()
    except FlipJumpReadFjmException:
        pass
    except BaseException as e:  # noqa
        return 'raw-exception', f'assert_runnable {type(e).__name__}', None, peak
    return 'loaded', '', r, peak


def judge(b, path, original_image, family, name, pos, sieve, stats, measure=False):
    """write bytes b, load, compare with R2."""
    from fjv.ref import fjm as R2
    path.write_bytes(b)
    outcome, detail, r, peak = load(path, limit_bytes=len(b) if measure else None)
    stats['loads'] += 1
    stats[outcome] = stats.get(outcome, 0) + 1
    case = {'file': name, 'family': family, 'pos': pos, 'bytes_hex': b.hex() if len(b) <= 4096 else None, 'length': len(b)}

    def bad(kind, expected, observed, cls=None):
        sieve.add({'kind': kind, 'class': cls or kind, 'case': case, 'expected': expected, 'observed': observed,
                   'summary': f'{name} {family}@{pos}: {kind}: {observed}'})

    if outcome in ('raw-exception', 'hang'):
        bad(outcome, 'image or FlipJumpReadFjmException', detail, f'{outcome} {detail.split(":")[0]}')
        return outcome
    if measure and peak is not None:
        # dense words: each costs ~100 bytes in a python dict; anything far beyond that is unrelated to the file
        try:
            p = R2.parse(b)
            dense = sum(min(l, dl + R2.DENSE_THRESHOLD) for _, l, _, dl in p.segments if dl <= len(p.pool))
        except R2.Reject:
            dense = 0
        budget = 400 * (len(b) + dense) + (32 << 20)  # the raw-LZMA2 decoder alone allocates a fixed ~8 MB
        if peak > budget:
            bad('allocation unrelated to the file size', f'<= {budget} bytes', f'{peak} bytes', 'allocation')
    if outcome == 'rejected':
        return outcome
    img = R2.normalize(*R2.reader_image(r))
    if family == 'prefix':
        if img != original_image:
            bad('a torn file loaded as a different image', 'rejected, or the original image', f'{len(img[0])} nonzero words, segments {img[1][:3]}')
        else:
            stats['prefix_identical'] = stats.get('prefix_identical', 0) + 1
        return outcome
    try:
        p = R2.parse(b)
    except R2.Reject as e:
        stats['lenient_load'] = stats.get('lenient_load', 0) + 1
        bad('a file that is not decodable as an .fjm was loaded', f'FlipJumpReadFjmException ({e})', f'loaded {len(img[0])} nonzero words', 'undecodable: ' + str(e)[:30])
        return outcome
    inc = R2.inconsistencies(p)
    if inc:
        bad('inconsistent file loaded', 'FlipJumpReadFjmException', inc[:3], 'inconsistent: ' + inc[0].split(': ')[1])
        return outcome
    if img != R2.normalize(*R2.image(p)):
        bad('loaded image differs from the format model', 'R2 image', 'different image')
    else:
        stats['loaded_consistent'] = stats.get('loaded_consistent', 0) + 1
    return outcome


def table_fields(b):
    """[(name, offset, size)] of every header / segment-table field of a well-formed file."""
    magic, w, version, nseg = struct.unpack_from('<HHQQ', b, 0)
    f = [('magic', 0, 2), ('width', 2, 2), ('version', 4, 8), ('segment_num', 12, 8)]
    off = 20
    if version != 0:
        f += [('flags', 20, 8), ('reserved', 28, 4)]
        off = 32
    for i in range(nseg):
        for j, nm in enumerate(('start', 'length', 'data_start', 'data_length')):
            f.append((f'seg{i}.{nm}', off + 32 * i + 8 * j, 8))
    return f, off + 32 * nseg


def work(task):
    from fjv.enginecheck import scratch
    from fjv.ref import fjm as R2
    kind = task[0]
    sieve = Sieve(PROP, MATCHERS)
    stats = {'loads': 0, 'files': 0, 'fired': 0}
    path = scratch() / 'c10.fjm'
    if kind == 'short':
        # every byte string of length <= 2 (the empty string included), sliced by first byte
        _, first = task
        strings = [b''] if first is None else [bytes([first])] + [bytes([first, x]) for x in range(256)]
        for s in strings:
            judge(s, path, None, 'short', 'bytes', s.hex(), sieve, stats)
            stats['fired'] += 1
        return stats, sieve.result(), None
    _, tier, idx, fam = task
    items = corpus(tier) + assembled_corpus(tier)
    name, w, v, preset, build = items[idx]
    src = scratch() / 'orig.fjm'
    build(src)
    orig = src.read_bytes()
    stats['files'] += 1
    outcome, detail, r, _ = load(src)
    if outcome != 'loaded':
        # the undamaged file itself is refused (whether a writer-produced file must load is C06's question): nothing to derive faults from
        stats['corpus_files_not_loadable'] = 1
        return stats, sieve.result(), {'file': name, 'skipped': f'{outcome}: {str(detail)[:120]}'}
    original_image = R2.normalize(*R2.reader_image(r))
    fields, table_end = table_fields(orig)
    big = len(orig) > 4000
    sample = None
    if fam == 'prefix':
        if big and (tier != 'thorough' or len(orig) > 50000):
            stride = 257 if len(orig) < 50000 else 16381
            cuts = list(range(0, table_end + 64)) + list(range(table_end + 64, len(orig), stride)) + list(range(len(orig) - 64, len(orig)))
        else:
            cuts = range(len(orig))
        for n in sorted(set(cuts)):
            judge(orig[:n], path, original_image, 'prefix', name, n, sieve, stats)
            stats['fired'] += 1
        sample = {'file': name, 'length': len(orig), 'prefixes': len(set(cuts))}
    elif fam == 'field':
        for fname, off, size in fields:
            cur = int.from_bytes(orig[off:off + size], 'little')
            vals = set(FIELD_VALUES + [cur + 1, cur - 1, cur + 2, cur ^ 1, len(orig), cur * 2])
            for val in sorted(vals):
                val &= (1 << (8 * size)) - 1
                if val == cur:
                    continue
                b = orig[:off] + val.to_bytes(size, 'little') + orig[off + size:]
                judge(b, path, original_image, 'field', name, f'{fname}={val}', sieve, stats, measure=not big)
                stats['fired'] += 1
        # two damaged fields of one segment-table entry (a corruption that keeps one consistency rule may break another)
        import itertools
        small = [-2, -1, 1, 2, 'x1']
        segs = {}
        for fname, off, size in fields:
            if fname.startswith('seg'):
                segs.setdefault(fname.split('.')[0], []).append((fname, off, size))
        if not big or len(segs) <= 4:
            for entry in segs.values():
                for (fa, oa, sa), (fb_, ob, sb) in itertools.combinations(entry, 2):
                    ca, cb = int.from_bytes(orig[oa:oa + sa], 'little'), int.from_bytes(orig[ob:ob + sb], 'little')
                    for da, db in itertools.product(small, small):
                        va = (ca ^ 1 if da == 'x1' else ca + da) & ((1 << 64) - 1)
                        vb = (cb ^ 1 if db == 'x1' else cb + db) & ((1 << 64) - 1)
                        b = bytearray(orig)
                        b[oa:oa + sa] = va.to_bytes(sa, 'little')
                        b[ob:ob + sb] = vb.to_bytes(sb, 'little')
                        judge(bytes(b), path, original_image, 'field', name, f'{fa}={va},{fb_}={vb}', sieve, stats, measure=False)
                        stats['fired'] += 1
        sample = {'file': name, 'fields': [f[0] for f in fields]}
    elif fam == 'payload':
        positions = range(table_end, len(orig))
        if big:
            step = 1 if tier == 'thorough' and v == 3 and len(orig) < 20000 else (97 if len(orig) < 50000 else len(orig) // 24)
            head = 96 if len(orig) < 50000 else 12
            positions = list(range(table_end, min(table_end + head, len(orig)))) + list(range(table_end + head, len(orig), step))
        for pos in positions:
            cur = orig[pos]
            for nb in {0, 0xFF, cur ^ 1, cur ^ 0x80}:
                if nb == cur:
                    continue
                b = orig[:pos] + bytes([nb]) + orig[pos + 1:]
                judge(b, path, original_image, 'payload', name, f'{pos}:{nb}', sieve, stats)
                stats['fired'] += 1
        # appended bytes (a file that grew): 1 byte, one word, junk
        for extra in (b'\x00', b'\xff' * (w // 8), b'\x01' * 7, b'\x00' * (1 << 16), b'\x5a' * ((1 << 16) + 1), b'\xff' * (3 << 16)):
            if len(extra) > 64 and not (v == 3 or name.startswith('single')):
                continue
            judge(orig + extra, path, original_image, 'payload', name, f'append{len(extra)}', sieve, stats)
            stats['fired'] += 1
        sample = {'file': name, 'payload_positions': len(list(positions))}
        if v == 3 and not big:
            # well-formed LZMA2 streams around the original payload: a ragged byte count must be rejected, whole extra words are unreferenced data
            import lzma
            raw = lzma.decompress(orig[table_end:], format=lzma.FORMAT_RAW, filters=[{'id': lzma.FILTER_LZMA2}])
            wb = w // 8
            variants = {('minus', k): raw[:len(raw) - k] for k in range(1, min(2 * wb, len(raw)) + 1)}
            variants.update({('plus', k): raw + b'\x07' * k for k in range(1, 2 * wb + 1)})
            variants[('empty', 0)] = b''
            for (how, k), data in variants.items():
                for preset in (0, 6):
                    comp = lzma.compress(data, format=lzma.FORMAT_RAW, filters=[{'id': lzma.FILTER_LZMA2, 'preset': preset}])
                    judge(orig[:table_end] + comp, path, original_image, 'payload', name, f'recompressed-{how}{k}-p{preset}', sieve, stats)
                    stats['fired'] += 1
    return stats, sieve.result(), sample


def k_reader_inconsistent(rec, sig):
    return rec['kind'] == 'inconsistent file loaded'


MATCHERS = {'reader_loads_inconsistent_table': k_reader_inconsistent}


def make_tasks(tier, only=None):
    n = len(corpus(tier)) + len(assembled_corpus(tier))
    tasks = [('short', None)] + [('short', f) for f in range(256)]
    for i in range(n):
        for fam in ('prefix', 'field', 'payload'):
            tasks.append(('file', tier, i, fam))
    if only:
        tasks = [t for t in tasks if only in t]
    return tasks


def replay(args):
    from fjv.enginecheck import scratch
    from fjv.runner import install_watchdog
    install_watchdog()
    rec = load_replay(args.replay)
    c = rec['case']
    if not c.get('bytes_hex') and c['length']:
        print('the failing file is too large to be embedded; re-run the check (file %s, %s@%s)' % (c['file'], c['family'], c['pos']))
        return 1
    sieve = Sieve(PROP)
    stats = {'loads': 0}
    orig_img = None
    if c['family'] == 'prefix':
        items = {x[0]: x for x in corpus('quick') + assembled_corpus('quick')}
        src = scratch() / 'orig.fjm'
        items[c['file']][4](src)
        from fjv.ref import fjm as R2
        orig_img = R2.normalize(*R2.reader_image(load(src)[2]))
    out = judge(bytes.fromhex(c['bytes_hex'] or ''), scratch() / 'replay.fjm', orig_img, c['family'], c['file'], c['pos'], sieve, stats, measure=True)
    print('outcome:', out, [r['summary'] for r in sieve.records])
    if sieve.records:
        print(f'VIOLATION property={PROP} replay={args.replay}')
        return 1
    print('replay: ok')
    return 0


def main():
    args = parse_args(PROP)
    bind('plain')
    if args.replay:
        return replay(args)
    run = Run(PROP, 'fault_enumeration', args, MATCHERS)
    total, samples = {}, []
    for stats, res, sample in pmap(work, make_tasks(args.tier, args.only), args.jobs):
        for k, v in stats.items():
            total[k] = total.get(k, 0) + v
        run.merge(res)
        if sample and len(samples) < 4:
            samples.append(sample)
    vac = [k for k in ('rejected', 'loaded') if not total.get(k)]
    if total.get('corpus_files_not_loadable', 0) * 2 > total.get('files', 1):
        vac.append('derived from most corpus files: the reader refuses them undamaged')
    if vac:
        print(f'CHECK-INTERNAL-ERROR vacuous exploration: nothing was {vac}', file=sys.stderr)
    cov = {
        'evaluations': total.get('loads', 0),
        'distinct_nontrivial': total.get('fired', 0),
        'rule': 'evaluations = loads of a damaged byte string; each (corpus file, damage kind, position, value) is distinct by construction '
                'and differs from the original file (non-trivial); the corpus files themselves come from the real Writer / assembler',
        'samples': samples or [{'note': 'none'}],
        'corpus_files': total.get('files', 0) // 3,
        'corpus_files_not_loadable': total.get('corpus_files_not_loadable', 0) // 3,
        'outcomes': {k: total.get(k, 0) for k in ('rejected', 'loaded', 'raw-exception', 'hang', 'prefix_identical', 'loaded_consistent', 'lenient_load')},
        'bounds': {'prefixes': 'every byte offset of every small corpus file; header/table every byte + stride 257 (quick) of the assembled files',
                   'field_values': FIELD_VALUES + ['cur+-1', 'cur+2', 'cur^1', '2*cur', 'file length'], 'payload_values': ['0', '0xff', 'b^1', 'b^0x80'],
                   'short_strings': 'all of length <= 2'},
        'exhaustive': not vac,
    }
    code = run.finish(cov, assumptions=[
        '"mutually inconsistent" = violates an invariant every writer-produced file satisfies (odd start/length/data length, data longer than the '
        'segment, data range outside the pool, overlapping address ranges); a single-field change giving another file that satisfies them is a '
        'different well-formed program (there is no checksum)',
        'allocation bound: peak traced allocation <= 400 x (file size + declared dense words) + 32 MB (the LZMA decoder has a fixed ~8 MB footprint); a v3 decompression bomb is not enumerated',
        '"never hangs" = each load returns within 10 s'])
    return 2 if vac and not code else code


if __name__ == '__main__':
    main_guard(main)
