"""C19 - devices see the same program memory under every engine.

Part A (engines): programs x device-memory access scripts injected at every IO call (all
sequences of <= 2/3 operations over read_word / write_word / read_data_byte / write_data_byte x
colliding in-segment addresses x values) x engines x storage modes; oracle = R1 extended with
the device operations (values returned to the device, later program behaviour, final memory).
Part B (screen): explicit-state / sequence search over the InMemoryScreen command stream with a
stub DeviceMemory: byte-level BFS (framing) and command-level sequences (semantics); oracle = a
decoder model R7 written from the module docstring.
Part C: the repository's two screen programs present identical frames on every engine.
"""
import copy
import hashlib
import itertools
import sys

from fjv.bind import bind
from fjv.runner import Run, Sieve, parse_args, pmap, load_replay, main_guard

PROP = 'C19'
H = 64
MAGIC = 0xBB67AE8584CAA73B
MODES = (
    ('featured', 'featured', 70, {}, {}),
    ('fast', 'fast', None, {}, {}),
    ('native', 'native', None, {}, {}),
    ('native-ring', 'native', 70, {}, {}),
    ('hybrid1', 'native', None, {'flat_max_words': 1}, {}),
    ('hybrid6', 'native', None, {'flat_max_words': 6}, {}),
    ('hybrid13', 'native', None, {'flat_max_words': 13}, {}),
    ('hybrid6-ring', 'native', 3, {'flat_max_words': 6}, {}),
    ('paged', 'native-paged', None, {}, {}),
    ('paged-ring', 'native-paged', 70, {}, {}),
    ('measure', 'native-measure', None, {}, {}),
)


# ------------------------------------------------------------------ part A
def program(w, far):
    """code [0,12) + far segment [far, far+4) with a long lazily-zero tail."""
    from fjv.ref import machine as R1
    dw = 2 * w
    fb = far * w
    data = {0: dw, 1: 4 * w,          # op0: output 0 -> IO call 0
            2: 0, 3: 0,               # the IO cell (flipped by outputs, never executed)
            4: fb + 1, 5: 6 * w,      # op2: flip a bit of the far data word
            6: dw + 1, 7: 8 * w,      # op3: output 1 -> IO call 1
            8: fb + w + 2, 9: 10 * w,  # op4: flip a bit of far word 1
            10: 0, 11: 10 * w,        # halt
            far: 5, far + 1: 0, far + 2: 0, far + 3: 6 * w}
    return R1.Image(w, [(0, 12), (far, 4 + 1200)], data)


def address_alphabet(w, far):
    """in-segment word addresses chosen to collide with what the program does next."""
    return [5,            # the jump word of the next op
            4,            # the flip word of the next op
            far,          # the word the next op flips
            far + 1,      # flipped later
            9,            # jump word of a later op
            11,           # the halt op's jump word
            far + 3,      # last data word of the far segment
            far + 700,    # never-written word of the lazily-zero tail
            far + 4 + 1199,  # last word of the far segment
            1, 7,         # the jump word of the output op that is executing while the device is called (IO call 0 / 1)
            0, 6,         # its flip word
            2]            # the IO cell the op is flipping


def value_alphabet(w):
    vals = [0, (1 << w) - 1, 10 * w, 8 * w, 6 * w + 1]
    if w == 64:
        vals.append(MAGIC)
    return vals


def device_ops_alphabet(w, far, tier):
    ops = []
    addrs = address_alphabet(w, far)
    vals = value_alphabet(w)
    for a in addrs:
        ops.append(('rw', a))
    for a in addrs:
        for v in vals:
            ops.append(('ww', a, v))
    opaddrs = [4 * w, 8 * w, far * w, (far + 2) * w, 0, 6 * w, (far + 698) * w]
    if w >= 16:
        for a in opaddrs:
            ops.append(('rb', a))
        for a in opaddrs[:6]:
            for v in (0, 0xFF, 0x1A5):
                ops.append(('wb', a, v))
    return ops


def model_apply(op, machine):
    """the documented DeviceMemory semantics on the R1 memory (in-segment addresses only)."""
    mem, w = machine['mem'], machine['w']
    mask = (1 << w) - 1
    kind = op[0]
    if kind == 'rw':
        return mem.get(op[1], 0)
    if kind == 'ww':
        mem[op[1]] = op[2] & mask
        return None
    ww = w.bit_length() - 1
    jw = (op[1] >> ww) + 1
    off = w.bit_length()
    if kind == 'rb':
        return (mem.get(jw, 0) >> off) & 0xFF
    cur = mem.get(jw, 0)
    mem[jw] = ((cur & ~(0xFF << off)) | ((op[2] & 0xFF) << off)) & mask
    return None


def real_apply(op, dm):
    kind = op[0]
    if kind == 'rw':
        return dm.read_word(op[1])
    if kind == 'ww':
        return dm.write_word(op[1], op[2])
    if kind == 'rb':
        return dm.read_data_byte(op[1])
    return dm.write_data_byte(op[1], op[2])


def scripts(w, far, tier):
    """(k, ops...) - at IO call k perform the op sequence; then read everything back at the last call."""
    alpha = device_ops_alphabet(w, far, tier)
    for k in (-1, 0, 1):  # -1: inside attach_memory (before the first op, the device sees the loaded image)
        for op in alpha:
            yield (k, (op,))
    writes0 = [o for o in alpha if o[0] in ('ww', 'wb')]
    for a in writes0[::2]:
        for b in [o for o in alpha if o[0] in ('rw', 'rb')]:
            yield (-1, (a, b))
    # pairs: a write followed by anything (write->read visibility, write->write, write->program)
    writes = [o for o in alpha if o[0] in ('ww', 'wb')]
    second = alpha if tier == 'thorough' else [o for o in alpha if o[0] in ('rw', 'rb')] + writes[::3]
    for k in (0, 1):
        for a in writes:
            for b in second:
                yield (k, (a, b))
    if tier == 'thorough':
        small_w = writes[::4]
        reads = [o for o in alpha if o[0] in ('rw', 'rb')]
        for a in small_w:
            for b in small_w:
                for c in reads[::2]:
                    yield (0, (a, b, c))


def run_script_case(image, path, script, mode, DEVICE, readback):
    from fjv.engines import run_engine
    k, ops = script
    returned = []

    def hook(i, kind, dev):
        if i == k:
            for op in ops:
                returned.append(real_apply(op, dev.memory))
        if i == 1:
            for a in readback:
                returned.append(dev.memory.read_word(a))

    name, engine, ring, kw, env = mode
    dev = DEVICE([], hook)
    o = run_engine(path, engine, dev, ring=ring, extra_kwargs=kw, extra_env=env, timeout=2.0, probe=readback)
    return o, returned


def ref_script_case(image, script, readback):
    from fjv.ref import machine as R1
    k, ops = script
    returned = []

    def dops(i, kind, machine):
        if i == k:
            for op in ops:
                returned.append(model_apply(op, machine))
        if i == 1:
            for a in readback:
                returned.append(machine['mem'].get(a, 0))

    r = R1.run(image, [], H, device_ops=dops)
    return r, returned


def work_a(task):
    from fjv.enginecheck import write_image, compare
    from fjv.engines import make_device_class
    from fjv.ref import machine as R1
    tier, w, far, part, nparts = task
    DEVICE = make_device_class()
    image = program(w, far)
    path = write_image(image, f'c19-{w}-{far}.fjm')
    readback = sorted(set(address_alphabet(w, far)) | {0, 2, 4, 5, 8, 9, 10, 11, far + 2})
    sieve = Sieve(PROP, MATCHERS)
    stats = {'scripts': 0, 'runs': 0, 'skipped_horizon': 0, 'nontrivial': 0}
    outcomes = {}
    sample = None
    for si, script in enumerate(scripts(w, far, tier)):
        if si % nparts != part:
            continue
        r, exp_ret = ref_script_case(image, script, readback)
        if r.cause in (R1.HORIZON, R1.NEED_INPUT):
            # the device's writes redirected the run beyond the horizon / into an input op (the scripted device answers no reads): outside the bound
            stats['skipped_horizon'] += 1
            continue
        stats['scripts'] += 1
        outcomes[r.cause + ':' + str(r.ops)] = outcomes.get(r.cause + ':' + str(r.ops), 0) + 1
        if any(o[0] in ('ww', 'wb') for o in script[1]):
            stats['nontrivial'] += 1
        for mode in MODES:
            o, got_ret = run_script_case(image, path, script, mode, DEVICE, readback)
            stats['runs'] += 1
            diffs = compare(r, o, mode[2], w)
            if got_ret != exp_ret:
                diffs.append(('values_returned_to_device', exp_ret, got_ret))
            if diffs:
                sieve.add({'kind': 'device-memory-vs-machine',
                           'case': {'w': w, 'far': far, 'script': [script[0], [list(x) for x in script[1]]], 'mode': mode[0]},
                           'expected': {d[0]: d[1] for d in diffs}, 'observed': {d[0]: d[2] for d in diffs},
                           'summary': f'w={w} far={far} mode={mode[0]} script={script}: differs in {[d[0] for d in diffs]}'})
        if sample is None and len(script[1]) == 2:
            sample = {'w': w, 'far': far, 'at_io_call': script[0], 'device_ops': [list(x) for x in script[1]],
                      'ref': {'cause': r.cause, 'ops': r.ops, 'returned': exp_ret[:4]}}
    return 'A', stats, outcomes, sieve.result(), sample


# ------------------------------------------------------------------ part B: screen model R7
class ScreenModel:
    """written from the ScreenIO module docstring."""

    def __init__(self, w, mem):
        self.w, self.mem = w, mem
        self.width = self.height = 0
        self.bpp, self.palette_size = 8, 0
        self.palette, self.pixels = [], []
        self.frames = []
        self.buf = []
        self.dead = False

    def byte_at(self, op_bit_address):
        ww = self.w.bit_length() - 1
        jw = (op_bit_address >> ww) + 1
        return (self.mem.get(jw, 0) >> self.w.bit_length()) & 0xFF

    def need(self, cmd):
        ab = self.w // 8
        if cmd == 1:
            return 8
        if cmd in (2, 3):
            return 1 + ab
        if cmd == 4:
            return 9 + ab
        if cmd == 5:
            if self.width == 0 or self.height == 0:
                return None
            return 1 + self.width * self.height
        return None

    def feed(self, byte):
        """returns 'ok' | 'error'"""
        if self.dead:
            return 'error'
        self.buf.append(byte)
        n = self.need(self.buf[0])
        if n is None:
            self.dead = True
            return 'error'
        if len(self.buf) < n:
            return 'ok'
        cmd, p = self.buf[0], self.buf[1:]
        self.buf = []
        u16 = lambda i: p[i] | (p[i + 1] << 8)  # noqa
        addr = lambda i: sum(p[i + j] << (8 * j) for j in range(self.w // 8))  # noqa
        dw = 2 * self.w
        if cmd == 1:
            width, height, bpp, ps = u16(0), u16(2), p[4], u16(5)
            if bpp not in (4, 8) or width == 0 or height == 0:
                self.dead = True
                return 'error'
            self.width, self.height, self.bpp, self.palette_size = width, height, bpp, ps
            self.palette = [(0, 0, 0)] * ps
            self.pixels = [0] * (width * height)
            return 'ok'
        if cmd == 2:
            a = addr(0)
            self.palette = [tuple(self.byte_at(a + (3 * k + c) * dw) for c in range(3)) for k in range(self.palette_size)]
            return 'ok'
        mask = (1 << self.bpp) - 1
        if cmd == 3:
            if self.width == 0:
                self.dead = True
                return 'error'
            a = addr(0)
            self.pixels = [self.byte_at(a + i * dw) & mask for i in range(self.width * self.height)]
            self.present()
            return 'ok'
        if cmd == 4:
            x, y, rw, rh, a = u16(0), u16(2), u16(4), u16(6), addr(8)
            if self.width == 0 or x + rw > self.width or y + rh > self.height:
                self.dead = True
                return 'error'
            for row in range(rh):
                for col in range(rw):
                    px = (y + row) * self.width + x + col
                    self.pixels[px] = self.byte_at(a + px * dw) & mask
            self.present()
            return 'ok'
        self.pixels = [b & mask for b in p]
        self.present()
        return 'ok'

    def present(self):
        rgb = [self.palette[i] if i < len(self.palette) else (0, 0, 0) for i in self.pixels]
        h = hashlib.sha256(bytes(self.pixels) + b''.join(bytes(c) for c in self.palette)).hexdigest()
        self.frames.append((list(self.pixels), rgb, h))

    def view(self):
        return {'width': self.width, 'height': self.height, 'bpp': self.bpp, 'palette_size': self.palette_size,
                'palette': [tuple(c) for c in self.palette], 'pixels': list(self.pixels), 'frame_count': len(self.frames),
                'last_rgb': self.frames[-1][1] if self.frames else [], 'hashes': [f[2] for f in self.frames]}


def screen_classes():
    from flipjump.interpreter.io_devices.device_memory import DeviceMemory

    class StubMemory(DeviceMemory):
        def __init__(self, w, mem):
            self.memory_width = w
            self.mem = mem

        def read_word(self, word_address):
            return self.mem.get(word_address, 0)

        def write_word(self, word_address, value):
            self.mem[word_address] = value & ((1 << self.memory_width) - 1)

    return StubMemory


def stub_memory_content(w, S1, S2, A1, A2):
    """distinct packed bytes at the framebuffer / palette regions (jump words of dw-spaced ops)."""
    mem = {}
    ww = w.bit_length() - 1
    off = w.bit_length()
    H1 = (1 << (w - 1)) + 64 * w  # a framebuffer / palette whose bit address has the top bit of the word set
    for base, seed in ((S1, 3), (S2, 0x51), (A1, 0x90), (A2, 0x17), (H1, 0x2B)):
        for i in range(24):
            jw = ((base + i * 2 * w) >> ww) + 1
            mem[jw] = (((seed + 37 * i) & 0xFF) << off) | 1
    return mem


def real_view(dev):
    return {'width': dev.width, 'height': dev.height, 'bpp': dev.bpp, 'palette_size': dev.palette_size,
            'palette': [tuple(c) for c in dev.palette], 'pixels': list(dev.pixel_indices), 'frame_count': dev.frame_count,
            'last_rgb': [tuple(c) for c in dev.last_frame_rgb], 'hashes': [h for _, h in dev.frame_hashes]}


def feed_real(dev, byte):
    from flipjump.utils.exceptions import IODeviceException
    try:
        for i in range(8):
            dev.write_bit(bool((byte >> i) & 1))
        return 'ok'
    except IODeviceException:
        return 'error'
    except Exception as e:  # noqa
        return 'exception:' + type(e).__name__


def screen_regions(w):
    S1, S2, A1, A2 = 64 * w, 200 * w, 400 * w, 404 * w
    return S1, S2, A1, A2


def command_alphabet(w, tier):
    S1, S2, A1, A2 = screen_regions(w)
    ab = w // 8
    le = lambda v, n: [(v >> (8 * i)) & 0xFF for i in range(n)]  # noqa
    inits = []
    sizes = [(0, 1), (1, 0), (1, 1), (2, 1), (3, 2), (2, 2)]
    for (x, y) in sizes:
        for bpp in (4, 8, 5):
            for ps in (0, 2, 17):
                if (x, y) in ((0, 1), (1, 0)) and (bpp, ps) != (8, 2):
                    continue
                inits.append(('init', [1] + le(x, 2) + le(y, 2) + [bpp] + le(ps, 2)))
    others = []
    for a in (A1, A2):
        others.append(('pal', [2] + le(a, ab)))
    for a in (S1, S2):
        others.append(('upd', [3] + le(a, ab)))
    H1 = (1 << (w - 1)) + 64 * w
    others.append(('updH', [3] + le(H1, ab)))
    others.append(('palH', [2] + le(H1, ab)))
    others.append(('rectH', [4] + le(0, 2) + le(0, 2) + le(1, 2) + le(1, 2) + le(H1, ab)))
    for (x, y, rw, rh) in [(0, 0, 1, 1), (1, 0, 1, 1), (0, 0, 2, 1), (1, 1, 2, 1), (2, 1, 1, 1), (0, 0, 0, 0), (3, 0, 1, 1), (0, 2, 1, 1),
                           (1, 0, 2, 2), (0, 1, 3, 1), (2, 0, 2, 1), (0, 0, 3, 2)]:
        others.append(('rect', [4] + le(x, 2) + le(y, 2) + le(rw, 2) + le(rh, 2) + le(S1, ab)))
    for n in (1, 2, 4, 6):
        others.append(('raw%d' % n, [5] + [(0x1F + 77 * i) & 0xFF for i in range(n)]))
    others.append(('bad0', [0]))
    others.append(('bad6', [6]))
    return inits, others


def work_b(task):
    """command-level sequences: init x cmd x cmd (and sequences without init)."""
    tier, w, part, nparts = task[1:5]
    modes = len(task) > 5 and task[5] == 'modes'
    StubMemory = screen_classes()
    from flipjump.interpreter.io_devices.ScreenIO import InMemoryScreen
    S1, S2, A1, A2 = screen_regions(w)
    mem = stub_memory_content(w, S1, S2, A1, A2)
    inits, others = command_alphabet(w, tier)
    sieve = Sieve(PROP, MATCHERS)
    stats = {'streams': 0, 'bytes': 0, 'frames': 0, 'errors': 0}
    depth = 3 if tier == 'thorough' else 2
    seqs = []
    firsts = inits + others
    tail_alphabet = others + inits[:3]
    if modes:
        # mode switches: long streams (5 / 6 commands) over a small alphabet - three screen modes, two palettes, three ways to present
        def pick(kind, pred=lambda bs: True):
            return [c for c in inits + others if c[0].startswith(kind) and pred(c[1])][:1]
        le2 = lambda v: [v & 0xFF, v >> 8]  # noqa
        firsts = [c for c in inits if c[1][1:8] in ([*le2(2), *le2(1), 8, *le2(2)], [*le2(2), *le2(1), 4, *le2(17)], [*le2(1), *le2(1), 8, *le2(2)])]
        tail_alphabet = firsts + [c for c in others if c[0] == 'pal'] + [c for c in others if c[0] == 'upd'][:1] + \
            [c for c in others if c[0] == 'rect'][:1] + [c for c in others if c[0] in ('raw1', 'raw2')]
        # between two device commands the PROGRAM may change the memory the device reads: not a byte of the stream, a change of the first
        # palette / the first framebuffer in place (the next command that reads them must see the current bytes)
        tail_alphabet += [('program-changes-palette', ('poke', A1)), ('program-changes-framebuffer', ('poke', S1))]
        depth = 5 if tier == 'thorough' else 4
        assert len(firsts) == 3 and len(tail_alphabet) >= 8, (len(firsts), len(tail_alphabet))
    idx = 0
    for first in firsts:
        tails = itertools.chain.from_iterable(itertools.product(tail_alphabet, repeat=d) for d in range(0, depth + 1))
        for tail in tails:
            idx += 1
            if idx % nparts != part:
                continue
            seqs.append((first,) + tail)
    states = set()
    sample = None
    ww_, off_ = w.bit_length() - 1, w.bit_length()
    for seq in seqs:
        stream = []
        for _, bs in seq:
            stream += [bs] if isinstance(bs, tuple) else list(bs)
        dev = InMemoryScreen()
        real_mem, model_mem = dict(mem), dict(mem)
        dev.attach_memory(StubMemory(w, real_mem))
        model = ScreenModel(w, model_mem)
        stats['streams'] += 1
        for i, b in enumerate(stream):
            if isinstance(b, tuple):
                # the program rewrites the first three packed bytes of the region (both memories alike)
                for k in range(3):
                    jw = ((b[1] + k * 2 * w) >> ww_) + 1
                    for m_ in (real_mem, model_mem):
                        m_[jw] = m_.get(jw, 0) ^ ((0x4D + 0x11 * k) << off_)
                continue
            e = model.feed(b)
            g = feed_real(dev, b)
            stats['bytes'] += 1
            if e == 'error':
                stats['errors'] += 1
            if g != e or (e == 'ok' and real_view(dev) != model.view()):
                sieve.add({'kind': 'screen-vs-decoder-model', 'case': {'w': w, 'commands': [n for n, _ in seq], 'stream': stream, 'at_byte': i},
                           'expected': {'status': e, 'view': model.view()}, 'observed': {'status': g, 'view': real_view(dev) if g == 'ok' else None},
                           'summary': f'w={w} screen stream {[n for n, _ in seq]} differs at byte {i}'})
                break
            if e == 'error':
                break
        else:
            # the same stream on a second device that nobody looks at until the end (the view above reads the device after every byte: a
            # device that computes what it shows lazily must still show the frame as it was presented)
            dev2 = InMemoryScreen()
            mem2 = dict(mem)
            dev2.attach_memory(StubMemory(w, mem2))
            status2 = 'ok'
            for b in stream:
                if isinstance(b, tuple):
                    for k in range(3):
                        jw = ((b[1] + k * 2 * w) >> ww_) + 1
                        mem2[jw] = mem2.get(jw, 0) ^ ((0x4D + 0x11 * k) << off_)
                    continue
                status2 = feed_real(dev2, b)
                if status2 != 'ok':
                    break
            if status2 != 'ok' or real_view(dev2) != model.view():
                sieve.add({'kind': 'screen-vs-decoder-model', 'case': {'w': w, 'commands': [n for n, _ in seq], 'stream': stream, 'at_byte': len(stream), 'observed_only_at_the_end': True},
                           'expected': {'status': 'ok', 'view': model.view()}, 'observed': {'status': status2, 'view': real_view(dev2) if status2 == 'ok' else None},
                           'summary': f'w={w} screen stream {[n for n, _ in seq]}: the device looked at only after the whole stream differs from the model'})
        stats['frames'] += len(model.frames)
        states.add((tuple(model.pixels), tuple(model.palette), len(model.frames), model.dead))
        if sample is None and len(model.frames) >= 2:
            sample = {'w': w, 'commands': [n for n, _ in seq], 'stream': stream, 'frames': len(model.frames)}
    stats['states'] = len(states)
    return 'B', stats, {}, sieve.result(), sample


def work_bytes(task):
    """byte-level BFS (framing): every byte string up to depth d over a byte alphabet; a state is
    the live device (deep-copied), de-duplicated by its attributes; an error state is terminal."""
    tier, w, first = task[1:]
    StubMemory = screen_classes()
    from flipjump.interpreter.io_devices.ScreenIO import InMemoryScreen
    S1, S2, A1, A2 = screen_regions(w)
    mem = stub_memory_content(w, S1, S2, A1, A2)
    alpha = [0, 1, 2, 4, 8, 0xFF]
    depth = 9 if tier == 'thorough' else 8
    if w != 16:
        depth = 7 if tier == 'thorough' else 6
    sieve = Sieve(PROP, MATCHERS)
    dev0 = InMemoryScreen()
    dev0.attach_memory(StubMemory(w, dict(mem)))
    model0 = ScreenModel(w, dict(mem))
    # pre-play a valid 2x1 init for half of the tasks so that later commands are reachable within the depth
    prefix = []
    if first[0] == 'init':
        prefix = [1, 2, 0, 1, 0, 8, 2, 0]
        for b in prefix:
            model0.feed(b)
            feed_real(dev0, b)
    seen = set()
    states = transitions = 0

    def key(dev):
        d = dict(vars(dev))
        d.pop('device_memory', None)
        d['frame_hashes'] = [h for _, h in dev.frame_hashes]
        return hashlib.md5(repr(sorted(d.items())).encode()).digest()

    # depth-first (memory stays proportional to depth x alphabet); every node is a live device copy
    stack = [(dev0, model0, tuple(prefix), 0)]
    while stack:
        dev, model, hist, level = stack.pop()
        choices = alpha if level else [first[1]]
        if model.buf and model.buf[0] == 1:
            # inside an init_screen command: keep the screen small (width*height <= 64, palette <= 511 entries);
            # larger screens are outside the bound (the device allocates width*height cells)
            n = len(model.buf)
            if n in (1, 3):
                choices = [0, 1, 2, 4, 8]
            elif n in (2, 4):
                choices = [0]
            elif n == 7:
                choices = [0, 1]
        for b in choices:
            d2 = copy.deepcopy(dev, {id(dev.device_memory): dev.device_memory})  # the stub memory is read-only here
            m2 = copy.copy(model)
            m2.buf, m2.palette, m2.pixels, m2.frames = list(model.buf), list(model.palette), list(model.pixels), list(model.frames)
            e = m2.feed(b)
            g = feed_real(d2, b)
            transitions += 1
            boundary = e == 'ok' and not m2.buf
            if g != e or (boundary and real_view(d2) != m2.view()):
                sieve.add({'kind': 'screen-vs-decoder-model', 'case': {'w': w, 'stream': list(hist) + [b], 'at_byte': len(hist)},
                           'expected': {'status': e, 'view': m2.view()}, 'observed': {'status': g, 'view': real_view(d2) if g == 'ok' else None},
                           'summary': f'w={w} screen byte stream {list(hist) + [b]} differs'})
                continue
            if e == 'error':
                continue
            if boundary:
                k = key(d2)
                if k in seen:
                    continue
                seen.add(k)
            states += 1
            if level + 1 < depth:
                stack.append((d2, m2, hist + (b,), level + 1))
    return 'Bb', {'states': states, 'transitions': transitions}, {}, sieve.result(), None


# ------------------------------------------------------------------ part C: e2e screen programs
LIVE_SCREEN_PROGRAM = """
def output_u16 val {
    rep(2, i) stl.output_char (val >> (8*i)) & 0xFF
}
def output_address addr {
    rep(w, i) stl.output_bit (addr >> i) & 1
}

stl.startup

stl.output_char 1            // init_screen 4x2, 8 bpp, 2 palette entries
output_u16 4
output_u16 2
stl.output_char 8
output_u16 2
stl.output_char 2            // set_palette
output_address palette
stl.output_char 3            // update_screen
output_address screen

screen+dbit;                 // pixel 0: 0 -> 1
screen+7*dw+dbit;            // pixel 7: 0 -> 1
screen+2*dw+dbit;            // pixel 2: 1 -> 0
palette+4*dw+dbit+2;         // palette entry 1, green: 100 -> 96
palette+dbit+6;              // palette entry 0, red: 10 -> 74

stl.output_char 2            // set_palette again
output_address palette
stl.output_char 3            // update_screen again
output_address screen
stl.output_char 4            // update_rectangle x=1 y=0 w=3 h=2
output_u16 1
output_u16 0
output_u16 3
output_u16 2
output_address screen

stl.loop

palette:
    ;10  * dw
    ;20  * dw
    ;30  * dw
    ;200 * dw
    ;100 * dw
    ;0   * dw

screen:
    ;0 * dw
    ;1 * dw
    ;1 * dw
    ;1 * dw
    ;1 * dw
    ;0 * dw
    ;1 * dw
    ;0 * dw
"""


def work_c(task):
    from fjv.asm import assemble_text
    from fjv.enginecheck import scratch
    from fjv.engines import ENGINES, engine_env
    from fjv import REPO
    from flipjump.interpreter import fjm_run
    from flipjump.interpreter.io_devices.ScreenIO import InMemoryScreen
    w = task[1]
    sieve = Sieve(PROP, MATCHERS)
    ns = {}
    src = (REPO / 'tests' / 'unit' / 'test_devices_e2e.py').read_text()
    progs = {}
    for name in ('SCREEN_PROGRAM', 'RAW_SCREEN_PROGRAM'):
        i = src.find(name + ' = """')
        if i < 0:
            continue
        j = src.find('"""', i + len(name) + 6)
        progs[name] = src[i + len(name) + 6:j]
    del ns
    # a third program that CHANGES its framebuffer and its palette between two presents (the repository's two only show static data): the
    # second frame must show the current memory - also when the flat window of the hybrid storage ends inside the framebuffer / the palette
    progs['LIVE_SCREEN_PROGRAM'] = LIVE_SCREEN_PROGRAM
    stats = {'runs': 0, 'programs': len(progs)}
    for name, text in progs.items():
        out = scratch() / f'{name}-{w}.fjm'
        dbg = scratch() / f'{name}-{w}.fjd'
        try:
            assemble_text(text, out, scratch(), w=w, version=1, debug_path=dbg)
        except Exception as e:  # noqa  (w=16 may not fit - not this property's concern)
            stats['skipped_assembly'] = stats.get('skipped_assembly', 0) + 1
            continue
        modes = list(MODES)
        from flipjump.utils.functions import load_debugging_labels
        labels = load_debugging_labels(dbg)
        for lab, offs in (('screen', (1, 3, 8, 15)), ('palette', (2, 5, 11))):
            if lab in labels:
                for off in offs:
                    cut = labels[lab] // w + off
                    modes.append((f'hybrid-cut-{lab}+{off}', 'native', None, {'flat_max_words': cut}, {}))
                    modes.append((f'hybrid-cut-{lab}+{off}-ring', 'native', 5, {'flat_max_words': cut}, {}))
        views = {}
        for mode in modes:
            mname, engine, ring, kw, env = mode
            kwargs, e2 = ENGINES[engine]
            kwargs = dict(kwargs)
            kwargs.update(kw)
            dev = InMemoryScreen()
            env = dict(e2, **env)
            with engine_env(env):
                try:
                    st = fjm_run.run(out, io_device=dev, last_ops_debugging_list_length=ring, **kwargs)
                    views[mname] = (str(st.termination_cause), st.op_counter, real_view(dev))
                except Exception as ex:  # noqa
                    views[mname] = ('exception', type(ex).__name__, None)
            stats['runs'] += 1
        ref = views['featured']
        for mname, v in views.items():
            if v != ref or v[2] is None or v[2]['frame_count'] < 1:
                sieve.add({'kind': 'screen-frames-across-engines', 'case': {'w': w, 'program': name, 'mode': mname},
                           'expected': ref, 'observed': v, 'summary': f'w={w} {name}: frames under {mname} differ from the featured engine'})
    return 'C', stats, {}, sieve.result(), None


def work(task):
    return {'A': work_a, 'B': work_b, 'Bb': work_bytes, 'C': work_c}[task[0]](task[1:] if task[0] == 'A' else task)


MATCHERS = {}


def make_tasks(tier, only):
    tasks = []
    P = 1 << 14
    for w in ((16, 32, 64) if tier == 'thorough' else (32, 64)):
        fars = [12, 16 * P] if w > 16 else [12]
        if tier == 'thorough' and w > 16:
            fars += [P - 2, 32 * P + 14]
        for far in fars:
            for p in range(8):
                tasks.append(('A', tier, w, far, p, 8))
    for w in (16, 32, 64):
        for p in range(6):
            tasks.append(('B', tier, w, p, 6))
        for p in range(8):
            tasks.append(('B', tier, w, p, 8, 'modes'))
        for first in (('cmd', 0), ('cmd', 1), ('cmd', 2), ('cmd', 3), ('cmd', 4), ('cmd', 5), ('cmd', 6), ('cmd', 0xFF),
                      ('init', 1), ('init', 2), ('init', 3), ('init', 4), ('init', 5), ('init', 0)):
            tasks.append(('Bb', tier, w, first))
        tasks.append(('C', w))
    if only:
        tasks = [t for t in tasks if t[0] == only]
    return tasks


def replay(args):
    from fjv.runner import install_watchdog
    install_watchdog()
    rec = load_replay(args.replay)
    c = rec['case']
    bad = False
    if rec['kind'] == 'device-memory-vs-machine':
        from fjv.enginecheck import write_image, compare
        from fjv.engines import make_device_class
        w, far = c['w'], c['far']
        image = program(w, far)
        path = write_image(image, 'replay.fjm')
        script = (c['script'][0], tuple(tuple(x) for x in c['script'][1]))
        readback = sorted(set(address_alphabet(w, far)) | {0, 2, 4, 5, 8, 9, 10, 11, far + 2})
        r, exp_ret = ref_script_case(image, script, readback)
        mode = [m for m in MODES if m[0] == c['mode']][0]
        o, got = run_script_case(image, path, script, mode, make_device_class(), readback)
        diffs = compare(r, o, mode[2], w)
        if got != exp_ret:
            diffs.append(('values_returned_to_device', exp_ret, got))
        from fjv.ref import machine as R1
        if r.cause in (R1.HORIZON, R1.NEED_INPUT):
            print('the reference run leaves the bound (', r.cause, '): not a case of this check')
            diffs = []
        print('DIFF' if diffs else 'same', diffs)
        bad = bool(diffs)
    elif rec['kind'] == 'screen-vs-decoder-model':
        StubMemory = screen_classes()
        from flipjump.interpreter.io_devices.ScreenIO import InMemoryScreen
        w = c['w']
        mem = stub_memory_content(w, *screen_regions(w))
        dev = InMemoryScreen()
        real_mem, model_mem = dict(mem), dict(mem)
        dev.attach_memory(StubMemory(w, real_mem))
        model = ScreenModel(w, model_mem)
        for b in c['stream']:
            if isinstance(b, (list, tuple)):   # the program changed the memory between two commands
                for k in range(3):
                    jw = ((b[1] + k * 2 * w) >> (w.bit_length() - 1)) + 1
                    for m_ in (real_mem, model_mem):
                        m_[jw] = m_.get(jw, 0) ^ ((0x4D + 0x11 * k) << w.bit_length())
                continue
            e, g = model.feed(b), feed_real(dev, b)
            if g != e or (e == 'ok' and not c.get('observed_only_at_the_end') and real_view(dev) != model.view()):
                print('byte', b, 'expected', e, model.view(), 'observed', g, real_view(dev))
                bad = True
                break
            if e == 'error':
                break
        if c.get('observed_only_at_the_end') and not bad and real_view(dev) != model.view():
            print('at the end: expected', model.view(), 'observed', real_view(dev))
            bad = True
    else:
        _, stats, _, res, _ = work_c(('C', c['w']))
        bad = bool(res[0])
    if bad:
        print(f'VIOLATION property={PROP} replay={args.replay}')
        return 1
    print('replay: agrees with the model')
    return 0


def main():
    args = parse_args(PROP)
    bind('plain')
    if args.replay:
        return replay(args)
    run = Run(PROP, 'model_checking', args, MATCHERS)
    tot = {'A': {}, 'B': {}, 'Bb': {}, 'C': {}}
    outcomes, samples = {}, []
    for part, stats, oc, res, sample in pmap(work, make_tasks(args.tier, args.only), args.jobs):
        for k, v in stats.items():
            tot[part][k] = tot[part].get(k, 0) + v
        for k, v in oc.items():
            outcomes[k] = outcomes.get(k, 0) + v
        run.merge(res)
        if sample and len(samples) < 4 and not any(s.get('w') == sample.get('w') and ('script' in s) == ('script' in sample) for s in samples):
            samples.append(sample)
    vac = []
    if not args.only:
        if len(outcomes) < 4:
            vac.append('device scripts never changed the program behaviour')
        if tot['B'].get('frames', 0) < 100 or tot['B'].get('errors', 0) < 100:
            vac.append('screen search saw too few frames/errors')
    if vac:
        print(f'CHECK-INTERNAL-ERROR vacuous exploration: {vac}', file=sys.stderr)
    cov = {
        'states': tot['B'].get('states', 0) + tot['Bb'].get('states', 0) + len(outcomes),
        'transitions': tot['A'].get('runs', 0) + tot['B'].get('bytes', 0) + tot['Bb'].get('transitions', 0) + tot['C'].get('runs', 0),
        'traces_validated_against_impl': tot['A'].get('runs', 0) + tot['B'].get('streams', 0) + tot['C'].get('runs', 0),
        'samples': samples or [{'note': 'none'}],
        'device_scripts': tot['A'].get('scripts', 0),
        'device_script_runs': tot['A'].get('runs', 0),
        'device_scripts_with_writes': tot['A'].get('nontrivial', 0),
        'distinct_program_outcomes_under_device_writes': len(outcomes),
        'screen_command_streams': tot['B'].get('streams', 0),
        'screen_frames_presented': tot['B'].get('frames', 0),
        'screen_rejections': tot['B'].get('errors', 0),
        'screen_byte_level_states': tot['Bb'].get('states', 0),
        'screen_byte_level_transitions': tot['Bb'].get('transitions', 0),
        'e2e_screen_runs': tot['C'].get('runs', 0),
        'bounds': {'modes': [m[0] for m in MODES], 'device_ops_per_script': 3 if args.tier == 'thorough' else 2,
                   'screen': 'command sequences of <= %d commands after the first; byte-level search depth 8 (quick) / 9 (thorough) at w=16, 6 / 7 at w=32/64, over 6 byte values; screens <= 3x2' % (3 if args.tier == 'thorough' else 2)},
        'exhaustive': not vac,
    }
    code = run.finish(cov, assumptions=[
        'device accesses are confined to in-segment addresses (the property says so); out-of-segment device writes are outside the bound',
        'after the screen device rejected a stream its state is not explored further',
        'R1 extended with the documented DeviceMemory semantics is the oracle'])
    return 2 if vac and not code else code


if __name__ == '__main__':
    main_guard(main)
