"""C13 - assembly output is a pure function of its inputs.

Explicit-state search over assemble-call histories in ONE process (K2): every history of depth <= 2
(thorough: depth 3 over a 9-action core) over 27 actions (stl programs at w=64/32, a no-stl program at w=16, werror on, a parse
failure inside nested namespaces, a lexing error, an unknown macro after the stl cache was filled, a
macro-recursion overflow with max_recursion_depth=5, runs with max_recursion_depth=2000 and 4000, programs behind a 1- or 2-file stl prefix with one to three user files, a
rep-heavy program, a program with 60 000 labels (a multi-megabyte debug file), a program that raises a syntax warning (with and without warnings-as-errors, one fixed path), the stl under other short names, other user short names, another directory) is run
in a forked child of a parent that has imported flipjump but never assembled; then every probe is
assembled and its .fjm and .fjd bytes are compared with the bytes produced by a FRESH interpreter
process. The real process globals (parse-cache keys, namespace stack, error flags, recursion limit)
form the state key that is reported.
"""
import hashlib
import itertools
import os
import subprocess
import sys

from fjv.bind import bind
from fjv.runner import Run, Sieve, parse_args, pmap, load_replay, main_guard

PROP = 'C13'

HELLO = 'stl.startup\nstl.output "Hello, World!\\n"\nstl.loop\n'
REPHEAVY = ('def m x {\n  rep(4, i) hex.xor_by x + i*dw, i\n}\nstl.startup_and_init_all\nm v\nrep(3, k) stl.output_char \'a\'+k\nhex.print_uint 4, v, 1, 0\nstl.loop\nv: hex.vec 4, 0x1234\n')
NOSTL = ';code\nIO:\n;0\ncode:\nIO+1;\nend:\n;end\n'
NSFAIL = 'ns a {\n ns b {\n  def m {\n   ;\n  }\n  x: ;)\n }\n}\n'
LEXFAIL = ';\n`\n'
UNKNOWN = 'stl.startup\nno_such_macro 1\nstl.loop\n'
RECURSE = 'def r {\n r\n}\nstl.startup\nr\nstl.loop\n'
CONSTS = 'LEN = 5\nVAL = LEN * 3\nstl.startup\nstl.output_char \'a\' + LEN\nstl.loop\n'
CONSTS_FAIL = 'LEN = 7\nstl.startup\nno_such_macro LEN\nstl.loop\n'
DEEP_OK = 'stl.startup\n;x' + '+1' * 400 + '\nx:\nstl.loop\n'      # well inside the default python recursion budget of an assemble
DEEP_FAIL = 'stl.startup\n;x' + '+1' * 700 + '\nx:\nstl.loop\n'    # well outside it: fails in a fresh process, must fail the same way after any history
WARN = 'def m x, unused_p {\n  ;x\n}\nm 0, 0\n'   # raises a syntax warning (an unused macro parameter): refused only when warnings are errors
BIGLABELS = 'def m @ a_rather_long_local_label_name_for_the_debug_table {\n  a_rather_long_local_label_name_for_the_debug_table:\n  ;\n}\nrep(60000, i) m\n'  # > 4 MiB of label json
NSM1 = 'ns t {\n  def pick x @ end, skip {\n    ;skip\n    end:\n    ;x\n    skip:\n    ;.end\n  }\n}\nt.pick 0\nt.pick 2*w\n'
# the same namespaced macro name and arity, other names for the parameter and the local labels, in another order
NSM2 = 'ns t {\n  def pick y @ skip, end, more {\n    ;end\n    skip:\n    ;y\n    end:\n    ;.skip\n    more:\n    ;.more\n  }\n}\nt.pick 4*w\n'
WFLIP_LOW = 'x:\n  wflip x+w, 5, y\ny:\n  ;y\n'
WFLIP_HIGH = 'x:\n  wflip x+w, (1 << 40) + (1 << 20) + 5, y\ny:\n  wflip x+w, (1 << 62) + 3, z\nz:\n  ;z\n'
PREFIXED = 'pa:\n  ;pb\npb:\n  pa;pa\n'
DEEP_IN_MACRO = 'def m a {\n  ;' + '+'.join(['a'] * 600) + '\n}\nx:\nm x\n'   # a long expression inside a macro body, assembled with a raised depth
USES_NAMES = 'stl.startup\n;LEN\nLEN:\n;VAL\nVAL:\nstl.loop\n'

# action: (name, text, kwargs)
ACTIONS = [
    ('hello64', HELLO, dict(w=64, use_stl=True)),
    ('hello32', HELLO, dict(w=32, use_stl=True)),
    ('nostl16', NOSTL, dict(w=16, use_stl=False)),
    ('hello64-werror', HELLO, dict(w=64, use_stl=True, werror=True)),
    ('fail-in-nested-ns', NSFAIL, dict(w=64, use_stl=True)),
    ('fail-in-nested-ns-nostl', NSFAIL, dict(w=32, use_stl=False)),
    ('lex-error', LEXFAIL, dict(w=64, use_stl=True)),
    ('unknown-macro', UNKNOWN, dict(w=64, use_stl=True)),
    ('recursion-depth-5', RECURSE, dict(w=64, use_stl=True, max_recursion_depth=5)),
    ('depth-2000', HELLO, dict(w=64, use_stl=True, max_recursion_depth=2000)),
    ('rep-heavy32', REPHEAVY, dict(w=32, use_stl=True)),
    ('stl-other-short-names', HELLO, dict(w=64, use_stl=True, stl_names='lib')),
    ('user-other-short-name', REPHEAVY, dict(w=64, use_stl=True, names=['zz'])),
    ('other-directory', HELLO, dict(w=64, use_stl=True, subdir='elsewhere')),
    ('defines-constants32', CONSTS, dict(w=32, use_stl=True)),
    ('defines-constants-then-fails', CONSTS_FAIL, dict(w=64, use_stl=True)),
    ('depth-4000', NOSTL, dict(w=16, use_stl=False, max_recursion_depth=4000)),
    ('wflip-at-width-16', WFLIP_LOW, dict(w=16, use_stl=False)),
    ('wflip-at-width-32', WFLIP_LOW, dict(w=32, use_stl=False)),
    ('namespaced-macro-variant-1', NSM1, dict(w=64, use_stl=False)),
    ('namespaced-macro-variant-2', NSM2, dict(w=64, use_stl=False)),
    ('sixty-thousand-labels', BIGLABELS, dict(w=64, use_stl=False)),
    ('warning-program', WARN, dict(w=64, use_stl=False, filename='warn.fj')),
    ('warning-program-werror', WARN, dict(w=64, use_stl=False, werror=True, filename='warn.fj')),
    ('stl-prefix-1-one-user-file', NOSTL, dict(w=64, use_stl=True, stl_prefix=1)),
    ('stl-prefix-1-three-user-files', PREFIXED, dict(w=64, use_stl=True, stl_prefix=1, extra_files=2)),
    ('stl-prefix-2-two-user-files', PREFIXED, dict(w=64, use_stl=True, stl_prefix=2, extra_files=1)),
    ('stl-subset-that-warns-lenient', NOSTL, dict(w=64, use_stl=True, stl_select=(1,))),
    ('stl-prefix-2-trimmed-from-the-public-path-list', PREFIXED, dict(w=64, use_stl=True, stl_take=2)),
]
CORE3 = ('hello64', 'fail-in-nested-ns', 'unknown-macro', 'recursion-depth-5', 'depth-2000', 'stl-other-short-names', 'defines-constants-then-fails',
         'stl-prefix-1-one-user-file', 'warning-program')
PROBES = [
    ('p-hello64-v3', HELLO, dict(w=64, use_stl=True, version=3)),
    ('p-rep32-v2', REPHEAVY, dict(w=32, use_stl=True, version=2)),
    ('p-nostl16-v1', NOSTL, dict(w=16, use_stl=False, version=1)),
    ('p-rep64-werror-v1', REPHEAVY, dict(w=64, use_stl=True, version=1, werror=True)),
    ('p-names64-v1', USES_NAMES, dict(w=64, use_stl=True, version=1)),
    ('p-names32-v3', USES_NAMES, dict(w=32, use_stl=True, version=3)),
    ('p-wflip-high-bits-64', WFLIP_HIGH, dict(w=64, use_stl=False, version=1)),
    ('p-namespaced-macro-variant-1', NSM1, dict(w=64, use_stl=False, version=1)),
    ('p-namespaced-macro-variant-2', NSM2, dict(w=64, use_stl=False, version=2)),
    ('p-warning-werror', WARN, dict(w=64, use_stl=False, werror=True, version=1, filename='warn.fj')),
    ('p-warning', WARN, dict(w=64, use_stl=False, version=1, filename='warn.fj')),
    ('p-stl-prefix-1', NOSTL, dict(w=64, use_stl=True, version=1, stl_prefix=1)),
    ('p-stl-prefix-2', PREFIXED, dict(w=64, use_stl=True, version=3, stl_prefix=2)),
    ('p-deep-expr-400', DEEP_OK, dict(w=64, use_stl=True, version=1)),
    ('p-deep-expr-700', DEEP_FAIL, dict(w=64, use_stl=True, version=1)),
    ('p-deep-expr-in-macro-depth-3000', DEEP_IN_MACRO, dict(w=64, use_stl=False, version=1, max_recursion_depth=3000)),
    ('p-deep-expr-in-macro-depth-default', DEEP_IN_MACRO, dict(w=64, use_stl=False, version=1)),
    # the failing inputs of the history again: an input that is refused is refused every time, with the same diagnostic class
    ('p-lex-error-again', LEXFAIL, dict(w=64, use_stl=True, version=1)),
    ('p-fail-in-nested-ns-again', NSFAIL, dict(w=32, use_stl=False, version=1)),
    ('p-unknown-macro-again', UNKNOWN, dict(w=64, use_stl=True, version=1)),
    # an stl subset whose own parse raises warnings: accepted in the lenient mode, refused when warnings are errors - whichever came first
    ('p-stl-subset-that-warns-strict', NOSTL, dict(w=64, use_stl=True, version=1, stl_select=(1,), werror=True)),
    ('p-stl-subset-that-warns-lenient', NOSTL, dict(w=64, use_stl=True, version=1, stl_select=(1,))),
    # an invalid file list (the user file carries the short name of the first stl file): refused whether or not the stl parse is cached
    ('p-user-file-with-an-stl-short-name', NOSTL, dict(w=64, use_stl=True, version=1, names=['s1'])),
    ('p-user-file-with-an-stl-short-name-32', NOSTL, dict(w=32, use_stl=True, version=1, names=['s2'])),
]


def do_assemble(text, wd, tag, w=64, use_stl=True, version=1, werror=False, max_recursion_depth=None, names=None, stl_names=None, subdir=None,
                stl_prefix=None, extra_files=0, filename=None, stl_take=None, stl_select=None):
    """assemble through the public assembler entry; -> (fjm bytes or None, fjd bytes or None, error class name)"""
    from flipjump.assembler import assembler
    from flipjump.fjm.fjm_consts import FJMVersion
    from flipjump.fjm.fjm_writer import Writer
    from flipjump.utils.functions import get_file_tuples
    from fjv.asm import quiet
    d = wd / (subdir or 'here')
    d.mkdir(exist_ok=True)
    src = d / (filename or f'{tag}.fj')   # a fixed file name: the same path assembled again by a later call of the history
    src.write_text(text)
    # every assembly of the process writes to the SAME two output paths, over whatever the previous one left there (a smaller output after a
    # bigger one included): the bytes of an output file are a function of this call's inputs only
    out, dbg = d / 'out.fjm', d / 'out.fjd'
    tuples = get_file_tuples([str(src.absolute())], no_stl=not use_stl)
    nstl = len(tuples) - 1
    if stl_prefix is not None:
        # only the first stl files in front of the user files (the parse cache keys on whatever stl files lead the list)
        tuples = tuples[:stl_prefix] + tuples[nstl:]
        nstl = stl_prefix
    if stl_select is not None:
        # a hand-picked subset of the stl files in front of the user file (e.g. one that raises parse warnings without the files it builds on)
        tuples = [(f's{i + 1}', tuples[i][1]) for i in stl_select] + tuples[nstl:]
        nstl = len(stl_select)
    if stl_take is not None:
        # the same reduced stl, built the way a caller would: take the public list of stl paths and trim ITS OWN list in place
        import flipjump
        paths = flipjump.get_stl_paths()
        del paths[stl_take:]
        paths.reverse()
        paths.reverse()
        tuples = [(f's{i}', p_) for i, p_ in enumerate(paths, start=1)] + tuples[nstl:]
        nstl = stl_take
    for k in range(extra_files):
        extra = d / f'{tag}-extra{k}.fj'
        extra.write_text(f'extra_{tag.replace("-", "_")}_{k}:\n  ;extra_{tag.replace("-", "_")}_{k}\n')
        tuples.append((f'x{k}', extra.absolute()))
    if stl_names:
        tuples = [(f'{stl_names}{i}', t[1]) for i, t in enumerate(tuples[:nstl], start=1)] + tuples[nstl:]
    if names:
        tuples = tuples[:nstl] + [(names[0], tuples[nstl][1])]
    kw = {}
    if max_recursion_depth is not None:
        kw['max_recursion_depth'] = max_recursion_depth
    try:
        with quiet():
            assembler.assemble(tuples, w, Writer(out, w, FJMVersion(version)), warning_as_errors=werror, debugging_file_path=dbg, print_time=False, **kw)
    except Exception as e:  # noqa
        return None, None, type(e).__name__
    return out.read_bytes(), dbg.read_bytes() if dbg.exists() else None, None


def digest(b):
    return None if b is None else hashlib.sha256(b).hexdigest()[:16]


def probe_all(wd, tag, rot=0):
    """the probes, one after the other in this process, starting with probe number `rot` (each probe is also history for the next ones:
    the rotation lets every probe be the one that directly follows the history)."""
    res = {}
    rot %= len(PROBES)
    for name, text, kw in PROBES[rot:] + PROBES[:rot]:
        fjm, fjd, err = do_assemble(text, wd, f'{tag}-{name}', **kw)
        res[name] = [digest(fjm), digest(fjd), err]
    return res


def state_key():
    """the real process globals the property's anchors name (graceful when they disappear)."""
    try:
        from flipjump.assembler import fj_parser
        cache = getattr(fj_parser, '_stl_prefix_cache', {})
        keys = sorted((k[0], k[1], len(k[2]), k[2][0][0] if k[2] else None) for k in cache)
        return (tuple(keys), tuple(getattr(fj_parser, 'curr_namespace', ())), bool(getattr(fj_parser, 'error_occurred', False)),
                bool(getattr(fj_parser, 'all_errors', '')), sys.getrecursionlimit())
    except Exception:  # noqa
        return ('unavailable', sys.getrecursionlimit())


FRESH_SNIPPET = '''
import sys, json
sys.path.insert(0, %r)
from fjv.bind import bind
bind('plain')
import checks.C13 as C
from pathlib import Path
print(json.dumps(C.probe_all(Path(%r), 'fresh', %d)))
'''


def fresh_reference(wd):
    """the probes assembled in a brand-new interpreter process (twice: repeated runs must agree too)."""
    import json
    from fjv import VERIF
    outs = []
    for k in range(2):
        d = wd / f'fresh{k}'
        d.mkdir(exist_ok=True)
        p = subprocess.run([sys.executable, '-c', FRESH_SNIPPET % (str(VERIF), str(d), k * (len(PROBES) // 2 + 1))], capture_output=True, text=True, timeout=300,
                           env=dict(os.environ, PYTHONHASHSEED=str(k)))
        if p.returncode != 0:
            raise RuntimeError('fresh-process probe failed: ' + p.stderr[-2000:])
        outs.append(json.loads(p.stdout.strip().splitlines()[-1]))
    return outs


def work(task):
    from fjv.enginecheck import scratch
    history, ref = task
    wd = scratch()
    sieve = Sieve(PROP)
    stats = {'histories': 1, 'assemblies': 0}
    outcomes = []
    for i, ai in enumerate(history):
        name, text, kw = ACTIONS[ai]
        fjm, fjd, err = do_assemble(text, wd, f'h{i}', **kw)
        stats['assemblies'] += 1
        outcomes.append(err or 'ok')
    key = state_key()
    # which probe comes first: over the histories (a, b) with the same last action b, `a` takes every value, so every probe directly follows b
    rot = (sum(history[:-1]) + len(history)) % len(PROBES)
    got = probe_all(wd, 'probe', rot)
    stats['assemblies'] += len(PROBES)
    for pname in ref:
        if got[pname] != ref[pname]:
            which = [x for x, a, b in zip(('fjm', 'fjd', 'error'), got[pname], ref[pname]) if a != b]
            sieve.add({'kind': 'probe output depends on what the process assembled before', 'class': f'probe {pname} {which}',
                       'case': {'history': [ACTIONS[a][0] for a in history], 'history_idx': list(history), 'probe': pname, 'first_probe': PROBES[rot][0]},
                       'expected': {'fresh process': ref[pname]}, 'observed': {'after the history': got[pname]},
                       'summary': f'history {[ACTIONS[a][0] for a in history]} then {pname}: {which} differ from a fresh process'})
    return stats, sieve.result(), repr(key), outcomes


def replay(args):
    from fjv.enginecheck import scratch
    rec = load_replay(args.replay)
    c = rec['case']
    ref = fresh_reference(scratch())[0]
    res = list(pmap(work, [(tuple(c['history_idx']), ref)], 2, on_crash='raise', task_timeout=600))[0]
    for r in res[1][0]:
        print('PROBLEM', r['summary'], r['expected'], r['observed'])
    if res[1][0]:
        print(f'VIOLATION property={PROP} replay={args.replay}')
        return 1
    print('replay: ok')
    return 0


def main():
    args = parse_args(PROP)
    bind('plain')
    if args.replay:
        return replay(args)
    run = Run(PROP, 'model_checking', args)
    from fjv.enginecheck import scratch
    refs = fresh_reference(scratch())
    if refs[0] != refs[1]:
        run.report({'kind': 'two fresh processes produce different bytes', 'case': {'probes': [p[0] for p in PROBES]}, 'expected': refs[0], 'observed': refs[1],
                    'summary': 'repeated fresh runs (different hash seeds, different directories) disagree'})
    ref = refs[0]
    depth = 3 if args.tier == 'thorough' else 2
    histories = [()]
    for d in range(1, 3):
        histories += list(itertools.product(range(len(ACTIONS)), repeat=d))
    if depth == 3:
        # depth 3 over the whole alphabet (23^3 histories x 12 probes, a fresh child each) did not finish in 100 minutes: depth 3 is
        # complete over a core of the actions that leave state behind in different ways
        core = [i for i, a in enumerate(ACTIONS) if a[0] in CORE3]
        histories += list(itertools.product(core, repeat=3))
    total = {}
    states = set()
    outcomes = {}
    samples = []
    for stats, res, key, oc in pmap(work, [(h, ref) for h in histories], args.jobs, task_timeout=900):
        for k, v in stats.items():
            total[k] = total.get(k, 0) + v
        run.merge(res)
        states.add(key)
        for o in oc:
            outcomes[o] = outcomes.get(o, 0) + 1
    samples.append({'history': [ACTIONS[a][0] for a in histories[len(histories) // 2]], 'probes': [p[0] for p in PROBES], 'fresh_reference': ref})
    vac = []
    if len(states) < 4 or len(outcomes) < 3:
        vac.append(f'too few distinct process states ({len(states)}) / action outcomes ({outcomes})')
    if vac:
        print(f'CHECK-INTERNAL-ERROR vacuous: {vac}', file=sys.stderr)
    cov = {
        'states': len(states),
        'transitions': total.get('assemblies', 0),
        'traces_validated_against_impl': total.get('histories', 0),
        'samples': samples,
        'histories': total.get('histories', 0),
        'action_outcomes': outcomes,
        'bounds': {'depth': depth, 'depth_3_core': list(CORE3) if depth == 3 else None, 'actions': [a[0] for a in ACTIONS], 'probes': [p[0] for p in PROBES]},
        'exhaustive': not vac,
    }
    code = run.finish(cov, assumptions=[
        'every history runs in a forked child of a parent that imported flipjump but never assembled; the reference comes from a brand-new interpreter (two of them, with different PYTHONHASHSEED and directories)',
        'the state key (parse-cache keys, namespace stack, error flags, recursion limit) is only reported, histories are not merged by it'])
    return 2 if vac and not code else code


if __name__ == '__main__':
    main_guard(main)
