"""C08 - pointer, stack and call/return macros address exactly the pointed cell.

Explicit-state search (K2b) on the stl block harness:
 * pointer blocks (hex namespace, w in {64,32}; bit namespace, w in {64,32,16}): state = (pointer
   target in an 8-cell fenced buffer, previous pointer target, cell contents, value variables);
   all ordered (previous target, target) pairs x cell / value alphabets x every documented macro
   (read / write / xor / zero / flip / wflip / *_and_inc / n-cell forms / ptr arithmetic / ptr_index
   and read_nth / write_nth with negative indices / ptr_jump); oracle = cell model + frame invariant
   over the WHOLE image (every other buffer cell, guard cell and variable untouched) + the mirror
   invariant (to_flip / to_jump hold what to_flip_var / to_jump_var say).
 * stack: every sequence of <= 5 (thorough 6) push/pop operations (hex, byte, 3-vector, 4-vector)
   that stays within depth 0..4, model = Python list (LIFO, sp restored, cells below untouched).
 * call/return: every call tree of depth <= 3 and fan-out <= 2 over {call, call with parameters,
   fcall/fret} as a whole program printing markers; expected = the pre/post-order walk.
"""
import itertools
import sys

from fjv.runner import Run, Sieve, parse_args, pmap, load_replay, main_guard

PROP = 'C08'
K = 8  # buffer cells


def sgnw(x, w):
    x &= (1 << w) - 1
    return x - (1 << w) if x >> (w - 1) else x


# ------------------------------------------------------------------ hex pointer blocks
def hex_blocks(w):
    """(name, call, exits, kind) - models are in apply_model()."""
    B = [
        ('read_hex', 'hex.read_hex h, p'), ('read_byte', 'hex.read_byte by, p'),
        ('read_hex2', 'hex.read_hex 2, v4, p'), ('read_byte2', 'hex.read_byte 2, v4, p'),
        ('read_hex_and_inc', 'hex.read_hex_and_inc h, p'), ('read_byte_and_inc', 'hex.read_byte_and_inc by, p'),
        ('write_hex', 'hex.write_hex p, h'), ('write_byte', 'hex.write_byte p, by'), ('zero_ptr', 'hex.zero_ptr p'),
        ('write_hex2', 'hex.write_hex 2, p, v4'), ('write_byte2', 'hex.write_byte 2, p, v4'),
        ('write_hex_and_inc', 'hex.write_hex_and_inc p, h'), ('write_byte_and_inc', 'hex.write_byte_and_inc p, by'),
        ('xor_hex_to_ptr', 'hex.xor_hex_to_ptr p, h'), ('xor_byte_to_ptr', 'hex.xor_byte_to_ptr p, by'),
        ('xor_hex_to_ptr2', 'hex.xor_hex_to_ptr 2, p, v4'), ('xor_byte_to_ptr2', 'hex.xor_byte_to_ptr 2, p, v4'),
        ('xor_hex_from_ptr', 'hex.xor_hex_from_ptr h, p'), ('xor_byte_from_ptr', 'hex.xor_byte_from_ptr by, p'),
        ('ptr_inc', 'hex.ptr_inc p'), ('ptr_dec', 'hex.ptr_dec p'), ('ptr_add', 'hex.ptr_add p, 3'), ('ptr_sub', 'hex.ptr_sub p, 2'),
        ('ptr_index', 'hex.ptr_index q, p, idx'),
        ('read_nth_hex', 'hex.read_nth_hex h, p, idx'), ('read_nth_byte', 'hex.read_nth_byte by, p, idx'),
        # the in-place table walk x = T[x]: the destination is the index variable itself
        ('read_nth_hex_into_its_index', 'hex.read_nth_hex idx, p, idx'), ('read_nth_byte_into_its_index', 'hex.read_nth_byte idx, p, idx'),
        ('write_nth_hex', 'hex.write_nth_hex p, idx, h'), ('write_nth_byte', 'hex.write_nth_byte p, idx, by'),
        ('ptr_flip', 'hex.ptr_flip p'), ('ptr_flip_dbit', 'hex.ptr_flip_dbit p'),
        # ptr_flip flips the BIT its pointer addresses: here the pointer q holds the address of data bit 2 of the cell p points at (a bit
        # address whose low hex is not zero - the `var+dbit` form of the repository's own programs)
        ('ptr_flip_bit_address', 'hex.ptr_flip q'),
        ('ptr_wflip', 'hex.ptr_wflip p, 5'), ('ptr_wflip_2nd_word', 'hex.ptr_wflip_2nd_word p, 3*dw'),
    ]
    return B


def apply_model(name, S, w, K_):
    """S: dict(p,q,idx,h,by,v4 ints; cells list of K+3 bytes (index 0 = low guard), flipw dict k->xor of flip word)
    -> new S (copy) or None if the access leaves the buffer (outside the family)."""
    dw = 2 * w
    S = dict(S, cells=list(S['cells']), flipw=dict(S['flipw']))
    t = (S['p'] - S['base']) // dw  # target buffer index (0..K-1); cells index = t + 1
    c = S['cells']
    sidx = sgnw(S['idx'], w)

    def ok(k, n=1):
        return 0 <= k and k + n <= K_

    m = (1 << w) - 1
    if name in ('read_hex', 'read_hex_and_inc'):
        if not ok(t):
            return None
        S['h'] = c[t + 1] & 0xf
    elif name in ('read_byte', 'read_byte_and_inc'):
        if not ok(t):
            return None
        S['by'] = c[t + 1]
    elif name == 'read_hex2':
        if not ok(t, 2):
            return None
        S['v4'] = (S['v4'] & ~0xff) | (c[t + 1] & 0xf) | ((c[t + 2] & 0xf) << 4)
    elif name == 'read_byte2':
        if not ok(t, 2):
            return None
        S['v4'] = c[t + 1] | (c[t + 2] << 8)
    elif name in ('write_hex', 'write_hex_and_inc'):
        if not ok(t):
            return None
        c[t + 1] = (c[t + 1] & 0xf0) | S['h']
    elif name in ('write_byte', 'write_byte_and_inc'):
        if not ok(t):
            return None
        c[t + 1] = S['by']
    elif name == 'zero_ptr':
        if not ok(t):
            return None
        c[t + 1] = 0
    elif name == 'write_hex2':
        if not ok(t, 2):
            return None
        c[t + 1] = (c[t + 1] & 0xf0) | (S['v4'] & 0xf)
        c[t + 2] = (c[t + 2] & 0xf0) | ((S['v4'] >> 4) & 0xf)
    elif name == 'write_byte2':
        if not ok(t, 2):
            return None
        c[t + 1] = S['v4'] & 0xff
        c[t + 2] = (S['v4'] >> 8) & 0xff
    elif name == 'xor_hex_to_ptr':
        if not ok(t):
            return None
        c[t + 1] ^= S['h']
    elif name == 'xor_byte_to_ptr':
        if not ok(t):
            return None
        c[t + 1] ^= S['by']
    elif name == 'xor_hex_to_ptr2':
        if not ok(t, 2):
            return None
        c[t + 1] ^= S['v4'] & 0xf
        c[t + 2] ^= (S['v4'] >> 4) & 0xf
    elif name == 'xor_byte_to_ptr2':
        if not ok(t, 2):
            return None
        c[t + 1] ^= S['v4'] & 0xff
        c[t + 2] ^= (S['v4'] >> 8) & 0xff
    elif name == 'xor_hex_from_ptr':
        if not ok(t):
            return None
        S['h'] ^= c[t + 1] & 0xf
    elif name == 'xor_byte_from_ptr':
        if not ok(t):
            return None
        S['by'] ^= c[t + 1]
    elif name == 'ptr_inc':
        S['p'] = (S['p'] + dw) & m
    elif name == 'ptr_dec':
        S['p'] = (S['p'] - dw) & m
    elif name == 'ptr_add':
        S['p'] = (S['p'] + 3 * dw) & m
    elif name == 'ptr_sub':
        S['p'] = (S['p'] - 2 * dw) & m
    elif name == 'ptr_index':
        S['q'] = (S['p'] + sidx * dw) & m
    elif name == 'read_nth_hex':
        if not ok(t + sidx):
            return None
        S['h'] = c[t + sidx + 1] & 0xf
    elif name == 'read_nth_byte':
        if not ok(t + sidx):
            return None
        S['by'] = c[t + sidx + 1]
    elif name == 'read_nth_hex_into_its_index':
        if not ok(t + sidx):
            return None
        S['idx'] = (S['idx'] & ~0xf) | (c[t + sidx + 1] & 0xf)
    elif name == 'read_nth_byte_into_its_index':
        if not ok(t + sidx):
            return None
        S['idx'] = (S['idx'] & ~0xff) | c[t + sidx + 1]
    elif name == 'write_nth_hex':
        if not ok(t + sidx):
            return None
        c[t + sidx + 1] = (c[t + sidx + 1] & 0xf0) | S['h']
    elif name == 'write_nth_byte':
        if not ok(t + sidx):
            return None
        c[t + sidx + 1] = S['by']
    elif name == 'ptr_flip':
        if not ok(t):
            return None
        S['flipw'][t] = S['flipw'].get(t, 0) ^ 1
    elif name == 'ptr_flip_dbit':
        if not ok(t):
            return None
        c[t + 1] ^= 1
    elif name == 'ptr_flip_bit_address':
        if not ok(t) or S['q'] != S['p'] + w + w.bit_length() + 2:
            return None
        c[t + 1] ^= 4
    elif name == 'ptr_wflip':
        if not ok(t):
            return None
        S['flipw'][t] = S['flipw'].get(t, 0) ^ 5
    elif name == 'ptr_wflip_2nd_word':
        if not ok(t):
            return None
        c[t + 1] ^= 3
    else:
        raise ValueError(name)
    if name.endswith('_and_inc'):
        S['p'] = (S['p'] + dw) & m
    return S


def shared_words(h, w, with_stack=True):
    """word indexes of the documented shared pointer state (exempt from the frame, checked by invariants)."""
    L = h.labels
    words = set()

    def vec(label, cells):
        a = L[label] // w
        words.update(range(a, a + 2 * cells))
    vec('hex.pointers.read_byte', 2)
    vec('hex.pointers.ret_after_read_byte', 1)
    vec('hex.pointers.to_flip', 1)
    vec('hex.pointers.to_jump', 1)
    vec('hex.pointers.to_flip_var', w // 4)
    vec('hex.pointers.to_jump_var', w // 4)
    vec('hex.pointers.nth_ptr', w // 4)
    if with_stack and 'hex.pointers.sp' in L:
        vec('hex.pointers.sp', w // 4)
    return words


def mirror_problems(h, snap, w):
    L = h.labels
    out = []

    def hexvec(label, cells):
        a = L[label] // w
        v = 0
        for i in range(cells):
            v |= ((h.word(snap, a + 2 * i + 1) >> h.shift) & 0xf) << (4 * i)
        return v
    tf = h.word(snap, L['hex.pointers.to_flip'] // w)
    tfv = hexvec('hex.pointers.to_flip_var', w // 4)
    tj = h.word(snap, L['hex.pointers.to_jump'] // w + 1)
    tjv = hexvec('hex.pointers.to_jump_var', w // 4)
    if tf != tfv:
        out.append(('to_flip != to_flip_var', tfv, tf))
    if tj != tjv:
        out.append(('to_jump != to_jump_var', tjv, tj))
    return out


def hex_step(h, w, name, call, S, shared, sieve, stats, family, what, extra_case=None):
    """one execution of the pointer block `name` from the model state S on the harness image as it is now (shared pointer globals as the
    previous block left them); -> None (the model does not define this state) | True (as documented) | False (violation recorded)"""
    if name == 'ptr_flip_bit_address':
        S = dict(S, q=S['p'] + w + w.bit_length() + 2)   # dbit = w + #w: the data bits of a cell start there
    E = apply_model(name, S, w, K)
    if E is None:
        return None
    cells = S['cells']
    vals = {'p': S['p'], 'q': S['q'], 'idx': S['idx'], 'h': S['h'], 'by': S['by'], 'v4': S['v4'],
            'buf': sum(c << (8 * i) for i, c in enumerate(cells))}
    exp = {'p': E['p'], 'q': E['q'], 'idx': E['idx'], 'h': E['h'], 'by': E['by'], 'v4': E['v4'],
           'buf': sum(c << (8 * i) for i, c in enumerate(E['cells']))}
    # flip words of the buffer cells start at 0 (restore them: a previous ptr_flip toggled them)
    raw = {h.var_addr['buf'] + 2 * k: 0 for k in range(K + 3)}
    r = h.step(name, vals, raw=raw)
    stats['transitions'] += 1
    problems = []
    if r['cause'] != 0 or r['exit'] != 'ft':
        problems.append(('termination', 'falls through', {'cause': r['cause'], 'exit': r.get('exit'), 'err': r.get('err')}))
    else:
        got = dict(r['vals'])
        if got != exp:
            bad = {k: (exp[k], got[k]) for k in exp if exp[k] != got[k]}
            problems.append(('values', {k: hex(v[0]) for k, v in bad.items()}, {k: hex(v[1]) for k, v in bad.items()}))
        raw_exp = {h.var_addr['buf'] + 2 * (k + 1): v for k, v in E['flipw'].items()}
        for k, v in E['flipw'].items():
            got_fw = h.word(r['snap'], h.var_addr['buf'] + 2 * (k + 1))
            if got_fw != v:
                problems.append((f'flip word of cell {k}', v, got_fw))
        fd = h.frame_diffs(name, r['snap'], got, extra_allowed=shared, raw_expected=raw_exp)
        if fd:
            problems.append(('frame: words outside the pointed cell / destination changed', 'unchanged',
                             [{'word': d[0], 'was': d[1], 'now': d[2], 'at': d[3]} for d in fd[:4]]))
        for mp in mirror_problems(h, r['snap'], w):
            problems.append(mp)
    if problems:
        sieve.add({'kind': 'pointer macro differs from its documented effect', 'class': f'hex ptr {name} {problems[0][0]}',
                   'case': dict({'family': family, 'w': w, 'block': name, 'call': call, 'state': {k: v for k, v in S.items()}}, **(extra_case or {})),
                   'expected': {p[0]: p[1] for p in problems}, 'observed': {p[0]: p[2] for p in problems},
                   'summary': f'w={w} {call} {what}: {[p[0] for p in problems]}'})
        h.restore_all()
        return False
    return True


def work_hex_pairs(task):
    """the pointer macros share global pointer registers: every ORDERED PAIR of hex pointer forms executed back to back (the second one starts
    with the registers exactly as the first one left them), over a few target pairs - each step against the same model and frame."""
    from fjv.enginecheck import scratch
    from fjv.stlharness import Harness, BlockSpec
    _, tier, w, part, nparts = task
    blocks = hex_blocks(w)
    specs = [BlockSpec(n, c, ['ft'], None, ()) for n, c in blocks]
    variables = [('p', w // 4), ('q', w // 4), ('idx', w // 4), ('h', 1), ('by', 2), ('v4', 4), ('buf', K + 3, 8, (0x10000, 5))]
    h = Harness(w, 'hex', 1, variables, specs, scratch(), tag=f'c08-pairs-{w}-{part}')
    sieve = Sieve(PROP, MATCHERS)
    stats = {'transitions': 0, 'states': 0, 'blocks': 0}
    dw = 2 * w
    base = h.labels['buf'] + dw
    shared = shared_words(h, w)
    pairs = [(a, b) for a in range(len(blocks)) for b in range(len(blocks))]
    targets = ((0, 5), (5, 0), (2, 2)) if tier != 'thorough' else ((0, 5), (5, 0), (2, 2), (7, 1), (4, 5))

    def state(t, cv, idx):
        cells = [(17 * k + 3) & 0xFF for k in range(K + 3)]
        cells[t + 1] = cv
        return {'p': base + t * dw, 'q': 0x1230, 'idx': idx, 'h': 0x6, 'by': 0x5A, 'v4': 0x5A69, 'cells': cells, 'flipw': {}, 'base': base}
    for pi, (a, b) in enumerate(pairs):
        if pi % nparts != part:
            continue
        for ta, tb in targets:
            h.restore_all()
            (na, ca), (nb, cb) = blocks[a], blocks[b]
            r1 = hex_step(h, w, na, ca, state(ta, 0xA5, 1 if 'idx' in ca else 0), shared, sieve, stats, 'hexpairs', f'(first of the pair {na}, {nb}) target cell {ta}',
                          {'pair': [na, nb], 'targets': [ta, tb], 'step': 0})
            if not r1:
                continue
            r2 = hex_step(h, w, nb, cb, state(tb, 0x3C, 1 if 'idx' in cb else 0), shared, sieve, stats, 'hexpairs', f'right after {ca} on cell {ta}: target cell {tb}',
                          {'pair': [na, nb], 'targets': [ta, tb], 'step': 1})
            if r2:
                stats['states'] += 1
    stats['blocks'] = len(blocks)
    return stats, sieve.result(), {'w': w, 'pairs': len(pairs), 'targets': list(targets)}


def work_hex_ptr(task):
    from fjv.enginecheck import scratch
    from fjv.stlharness import Harness, BlockSpec
    _, tier, w, part, nparts = task
    blocks = [b for i, b in enumerate(hex_blocks(w)) if i % nparts == part]
    specs = [BlockSpec(n, c, ['ft'], None, ()) for n, c in blocks]
    # buffer cell 4 (cells index 5) starts at a multiple of 0x10000 bits: pointer increments / restores carry out of the low hexes there
    variables = [('p', w // 4), ('q', w // 4), ('idx', w // 4), ('h', 1), ('by', 2), ('v4', 4), ('buf', K + 3, 8, (0x10000, 5))]
    h = Harness(w, 'hex', 1, variables, specs, scratch(), tag=f'c08-{w}-{part}')
    assert (h.labels['buf'] + 5 * 2 * w) % 0x10000 == 0
    sieve = Sieve(PROP, MATCHERS)
    stats = {'transitions': 0, 'states': 0, 'blocks': 0}
    dw = 2 * w
    base = h.labels['buf'] + dw  # buffer cell 0 (cells index 1); index 0 is the low guard
    shared = shared_words(h, w)
    cell_vals = (0x00, 0xFF, 0xA5, 0x3C, 0xF0) if tier != 'thorough' else (0x00, 0xFF, 0xA5, 0x3C, 0x0F, 0x81, 0xF0, 0x10)
    hv = (0x0, 0xF, 0x6)
    bv = (0x00, 0xFF, 0x5A)
    idxs = (0, 1, 2, (1 << w) - 1, (1 << w) - 2)
    seen_states = set()
    for name, call in blocks:
        stats['blocks'] += 1
        uses_idx = 'idx' in call
        n_cells = 2 if name.endswith('2') else 1
        full_order = []
        for a in range(K):
            for b in range(K):
                full_order += [a, b]
        combos = [(cv, hh, bb, idx, full_order) for cv, hh, bb in itertools.product(cell_vals, hv, bv) for idx in (idxs if uses_idx else (0,))]
        # every byte value of the pointed cell (stale cells: a zero nibble next to a non-zero one, ...) on a short target chain
        combos += [(cv, 0x6, 0x5A, idx, [0, 5, 5, 2, 7, 0]) for cv in range(256) if cv not in cell_vals for idx in ((0, idxs[-1]) if uses_idx else (0,))]
        for cv, hh, bb, idx, order in combos:
            if True:
                for t in order:
                    cells = [(17 * k + 3) & 0xFF for k in range(K + 3)]
                    cells[t + 1] = cv
                    if t + 2 < K + 3:
                        cells[t + 2] = cv ^ 0x5A
                    S = {'p': base + t * dw, 'q': 0x1230, 'idx': idx, 'h': hh, 'by': bb, 'v4': (bb << 8) | (hh << 4) | 0x9,
                         'cells': cells, 'flipw': {}, 'base': base}
                    key = (name, t, cv, hh, bb, idx)
                    if hex_step(h, w, name, call, S, shared, sieve, stats, 'hexptr', f'target cell {t} cell={cv:#x} h={hh:#x} by={bb:#x} idx={sgnw(idx, w)}') is None:
                        continue
                    seen_states.add(key)
    pointer_arithmetic_sweep(h, 'hex', w, blocks, {'p': 0, 'q': 0x1230, 'idx': 0, 'h': 0, 'by': 0, 'v4': 0, 'buf': 0}, sieve, stats, shared)
    stats['states'] = len(seen_states)
    return stats, sieve.result(), {'w': w, 'blocks': [b[0] for b in blocks]}


def work_ptr_jump(task):
    """hex.ptr_jump / bit.ptr_jump: p holds the address of one of three exits."""
    from fjv.enginecheck import scratch
    from fjv.stlharness import Harness, BlockSpec
    _, tier, w, ns = task
    cells = w // 4 if ns == 'hex' else w
    spec = BlockSpec('ptr_jump', f'{ns}.ptr_jump p', ['ft', 'j0', 'j1', 'j2'], None, ())
    h = Harness(w, ns, 1, [('p', cells), ('q', cells)], [spec], scratch(), init='all' if ns == 'hex' else 'pointers', tag=f'c08-jump-{ns}-{w}')
    sieve = Sieve(PROP, MATCHERS)
    stats = {'transitions': 0, 'states': 3, 'blocks': 1}
    for prev, e in itertools.product(('j0', 'j1', 'j2'), repeat=2):
        for target in (prev, e):
            addr = h.labels[f'X_ptr_jump_{target}']
            r = h.step('ptr_jump', {'p': addr, 'q': 0})
            stats['transitions'] += 1
            if r['cause'] != 0 or r['exit'] != target or r['vals']['p'] != addr:
                sieve.add({'kind': 'pointer macro differs from its documented effect', 'class': f'{ns} ptr_jump',
                           'case': {'family': 'jump', 'w': w, 'ns': ns, 'target': target}, 'expected': target, 'observed': {'exit': r.get('exit'), 'cause': r['cause']},
                           'summary': f'w={w} {ns}.ptr_jump to {target}: arrived at {r.get("exit")}'})
                h.restore_all()
    return stats, sieve.result(), None


def pointer_values(w):
    """pointer VALUES whose +-dw carries / borrows run through every bit position (the arithmetic macros do not dereference)"""
    dw = 2 * w
    lo = (2 * w).bit_length()
    vals = [dw, 2 * dw, (1 << w) - dw, (1 << w) - 2 * dw]
    for k in range(lo, w):
        vals += [1 << k, (1 << k) - dw, (1 << k) + dw, (1 << k) | (1 << (lo - 1))]
    return [v for v in dict.fromkeys(vals) if 0 <= v < (1 << w) and v % dw == 0]


def pointer_arithmetic_sweep(h, ns, w, blocks, base_vals, sieve, stats, shared):
    """ptr_inc / ptr_dec / ptr_add / ptr_sub over boundary pointer values: the pointer moves by whole cells modulo 2^w"""
    dw = 2 * w
    m = (1 << w) - 1
    delta = {'ptr_inc': dw, 'ptr_dec': -dw, 'ptr_add': 3 * dw, 'ptr_sub': -2 * dw}
    for name, call in blocks:
        if name not in delta:
            continue
        for pv in pointer_values(w):
            vals = dict(base_vals, p=pv)
            exp = dict(vals, p=(pv + delta[name]) & m)
            r = h.step(name, vals)
            stats['transitions'] += 1
            stats['pointer_arithmetic_values'] = stats.get('pointer_arithmetic_values', 0) + 1
            problems = []
            if r['cause'] != 0 or r['exit'] != 'ft':
                problems.append(('termination', 'falls through', {'cause': r['cause'], 'exit': r.get('exit')}))
            else:
                if r['vals'] != exp:
                    bad = {k: (exp[k], r['vals'][k]) for k in exp if exp[k] != r['vals'][k]}
                    problems.append(('values', {k: hex(v[0]) for k, v in bad.items()}, {k: hex(v[1]) for k, v in bad.items()}))
                fd = h.frame_diffs(name, r['snap'], r['vals'], extra_allowed=shared)
                if fd:
                    problems.append(('frame: other words changed', 'unchanged', [{'word': d[0], 'was': d[1], 'now': d[2], 'at': d[3]} for d in fd[:4]]))
            if problems:
                sieve.add({'kind': 'pointer arithmetic does not move by whole cells', 'class': f'{ns} {name} arithmetic {problems[0][0]}',
                           'case': {'family': 'ptrarith', 'w': w, 'ns': ns, 'block': name, 'call': call, 'pointer': pv},
                           'expected': {p_[0]: p_[1] for p_ in problems}, 'observed': {p_[0]: p_[2] for p_ in problems},
                           'summary': f'w={w} {call} with p={pv:#x}: {[p_[0] for p_ in problems]} {problems[0][1]} vs {problems[0][2]}'})
                h.restore_all()


# ------------------------------------------------------------------ bit pointers
def work_bit_ptr(task):
    from fjv.enginecheck import scratch
    from fjv.stlharness import Harness, BlockSpec
    _, tier, w, part, nparts = task
    blocks = [('ptr_flip', 'bit.ptr_flip p'), ('ptr_flip_dbit', 'bit.ptr_flip_dbit p'), ('xor_to_ptr', 'bit.xor_to_ptr p, b'),
              ('xor_from_ptr', 'bit.xor_from_ptr b, p'), ('ptr_wflip', 'bit.ptr_wflip p, 5'), ('ptr_wflip_2nd_word', 'bit.ptr_wflip_2nd_word p, dw'),
              ('ptr_inc', 'bit.ptr_inc p'), ('ptr_dec', 'bit.ptr_dec p')]
    blocks = blocks[part::nparts]
    specs = [BlockSpec(n, c, ['ft'], None, ()) for n, c in blocks]
    sieve = Sieve(PROP, MATCHERS)
    stats = {'transitions': 0, 'states': 0, 'blocks': len(blocks)}
    try:
        h = Harness(w, 'bit', 1, [('p', w), ('b', 1), ('buf', K + 3)], specs, scratch(), init='pointers', tag=f'c08-bit-{w}-{part}')
    except Exception as e:  # noqa
        if 'Not enough space' in str(e):
            stats['harness_not_assemblable'] = 1
            return stats, sieve.result(), {'skipped': f'bit pointers w={w} {[b[0] for b in blocks]}: does not fit the address space'}
        raise
    dw = 2 * w
    base = h.labels['buf'] + dw
    L = h.labels
    shared = set()
    for label, cells in (('bit.pointers.to_flip', 1), ('bit.pointers.to_jump', 1), ('bit.pointers.to_flip_var', w), ('bit.pointers.to_jump_var', w)):
        if label in L:
            a = L[label] // w
            shared.update(range(a, a + 2 * cells))
    m = (1 << w) - 1
    for name, call in blocks:
        for cellv, bv in itertools.product((0, 1), repeat=2):
            order = []
            for a in range(K):
                for b2 in range(K):
                    order += [a, b2]
            for t in order:
                cells = [(k * 5 + 1) & 1 for k in range(K + 3)]
                cells[t + 1] = cellv
                p = base + t * dw
                exp_cells = list(cells)
                exp_b, exp_p, flipw = bv, p, {}
                if name == 'ptr_flip':
                    flipw[t] = 1
                elif name == 'ptr_flip_dbit':
                    exp_cells[t + 1] ^= 1
                elif name == 'xor_to_ptr':
                    exp_cells[t + 1] ^= bv
                elif name == 'xor_from_ptr':
                    exp_b ^= cellv
                elif name == 'ptr_wflip':
                    flipw[t] = 5
                elif name == 'ptr_wflip_2nd_word':
                    exp_cells[t + 1] ^= 1
                elif name == 'ptr_inc':
                    exp_p = (p + dw) & m
                elif name == 'ptr_dec':
                    exp_p = (p - dw) & m
                vals = {'p': p, 'b': bv, 'buf': sum(c << i for i, c in enumerate(cells))}
                exp = {'p': exp_p, 'b': exp_b, 'buf': sum(c << i for i, c in enumerate(exp_cells))}
                raw = {h.var_addr['buf'] + 2 * k: 0 for k in range(K + 3)}
                r = h.step(name, vals, raw=raw)
                stats['transitions'] += 1
                stats['states'] += 1
                problems = []
                if r['cause'] != 0 or r['exit'] != 'ft':
                    problems.append(('termination', 'falls through', {'cause': r['cause'], 'exit': r.get('exit')}))
                else:
                    if r['vals'] != exp:
                        bad = {k: (exp[k], r['vals'][k]) for k in exp if exp[k] != r['vals'][k]}
                        problems.append(('values', {k: hex(v[0]) for k, v in bad.items()}, {k: hex(v[1]) for k, v in bad.items()}))
                    raw_exp = {h.var_addr['buf'] + 2 * (k + 1): v for k, v in flipw.items()}
                    for k, v in flipw.items():
                        gf = h.word(r['snap'], h.var_addr['buf'] + 2 * (k + 1))
                        if gf != v:
                            problems.append((f'flip word of cell {k}', v, gf))
                    fd = h.frame_diffs(name, r['snap'], r['vals'], extra_allowed=shared, raw_expected=raw_exp)
                    if fd:
                        problems.append(('frame: words outside the pointed cell changed', 'unchanged', [{'word': d[0], 'was': d[1], 'now': d[2], 'at': d[3]} for d in fd[:4]]))
                if problems:
                    sieve.add({'kind': 'pointer macro differs from its documented effect', 'class': f'bit ptr {name} {problems[0][0]}',
                               'case': {'family': 'bitptr', 'w': w, 'block': name, 'call': call, 'target': t, 'cell': cellv, 'b': bv},
                               'expected': {p_[0]: p_[1] for p_ in problems}, 'observed': {p_[0]: p_[2] for p_ in problems},
                               'summary': f'w={w} {call} target {t} cell={cellv} b={bv}: {[p_[0] for p_ in problems]}'})
                    h.restore_all()
    pointer_arithmetic_sweep(h, 'bit', w, blocks, {'p': 0, 'b': 0, 'buf': 0}, sieve, stats, shared)
    return stats, sieve.result(), {'w': w, 'bit_blocks': [b[0] for b in blocks]}


# ------------------------------------------------------------------ stack
STACK_OPS = ('push_hex', 'push_byte', 'push3', 'push4', 'pop_hex', 'pop_byte', 'pop3', 'pop4', 'sp_inc', 'sp_dec')


def work_stack(task):
    from fjv.enginecheck import scratch
    from fjv.stlharness import Harness, BlockSpec
    _, tier, w, first = task
    blocks = [('push_hex', 'hex.push_hex h'), ('push_byte', 'hex.push_byte by'), ('push3', 'hex.push 3, v4'), ('push4', 'hex.push 4, v4'),
              ('pop_hex', 'hex.pop_hex h'), ('pop_byte', 'hex.pop_byte by'), ('pop3', 'hex.pop 3, v4'), ('pop4', 'hex.pop 4, v4'),
              ('sp_inc', 'hex.sp_inc'), ('sp_dec', 'hex.sp_dec'), ('get_sp', 'stl.get_sp q')]
    specs = [BlockSpec(n, c, ['ft'], None, ()) for n, c in blocks]
    DEPTHCAP = 6  # the declared capacity: the deepest explored sequences fill the stack exactly
    h = Harness(w, 'hex', 1, [('q', w // 4), ('h', 1), ('by', 2), ('v4', 4)], specs, scratch(), stack=DEPTHCAP, tag=f'c08-stack-{w}-{first}')
    sieve = Sieve(PROP, MATCHERS)
    stats = {'transitions': 0, 'states': 0, 'blocks': len(blocks)}
    dw = 2 * w
    L = h.labels
    sp_addr = L['hex.pointers.sp'] // w
    stack0 = L['hex.pointers.stack']
    shared = shared_words(h, w)
    stack_words = set(range(stack0 // w, stack0 // w + 2 * (DEPTHCAP + 1)))
    maxlen = 6 if tier == 'thorough' else 4

    def read_sp(snap):
        v = 0
        for i in range(w // 4):
            v |= ((h.word(snap, sp_addr + 2 * i + 1) >> h.shift) & 0xf) << (4 * i)
        return v

    def cell(snap, k):  # stack cell k (1-based: stack[k]); data byte
        return (h.word(snap, stack0 // w + 2 * k + 1) >> h.shift) & 0xFF

    seqs = 0
    for L_ in range(1, maxlen + 1):
        for seq in itertools.product(STACK_OPS, repeat=L_):
            if seq[0] != first:
                continue
            # model feasibility: depth stays within 0..6
            depth, okseq = 0, True
            for op in seq:
                d = {'push_hex': 1, 'push_byte': 1, 'push3': 2, 'push4': 2, 'pop_hex': -1, 'pop_byte': -1, 'pop3': -2, 'pop4': -2, 'sp_inc': 1, 'sp_dec': -1}[op]
                depth += d
                if depth < 0 or depth > 6:
                    okseq = False
                    break
            if not okseq:
                continue
            seqs += 1
            h.restore_all()
            stack = []  # model: list of cell bytes; memory cells persist after a pop
            memcells = {}  # k -> byte (what the memory holds at stack[k])
            vals = {'q': 0, 'h': 0x7, 'by': 0xC4, 'v4': 0x9B3E}
            counter = 0
            for step_i, op in enumerate(seq):
                counter += 1
                vals = dict(vals, h=(vals['h'] * 7 + counter) & 0xF, by=(vals['by'] * 5 + 3 * counter) & 0xFF) if op.startswith('push') else dict(vals)
                if op in ('push3', 'push4'):
                    vals['v4'] = (vals['v4'] * 3 + 0x1111 * counter) & 0xFFFF
                exp = dict(vals)
                d = len(stack)
                if op == 'push_hex':
                    old = memcells.get(d + 1, 0)
                    stack.append((old & 0xF0) | vals['h'])
                elif op == 'push_byte':
                    stack.append(vals['by'])
                elif op == 'push3':
                    stack.append(vals['v4'] & 0xFF)
                    old = memcells.get(d + 2, 0)
                    stack.append((old & 0xF0) | ((vals['v4'] >> 8) & 0xF))
                elif op == 'push4':
                    stack.append(vals['v4'] & 0xFF)
                    stack.append((vals['v4'] >> 8) & 0xFF)
                elif op == 'pop_hex':
                    exp['h'] = stack.pop() & 0xF
                elif op == 'pop_byte':
                    exp['by'] = stack.pop()
                elif op == 'pop3':
                    hi = stack.pop() & 0xF
                    lo = stack.pop()
                    exp['v4'] = (vals['v4'] & 0xF000) | (hi << 8) | lo
                elif op == 'pop4':
                    hi = stack.pop()
                    lo = stack.pop()
                    exp['v4'] = (hi << 8) | lo
                elif op == 'sp_inc':
                    stack.append(memcells.get(d + 1, 0))
                elif op == 'sp_dec':
                    stack.pop()
                for k, b in enumerate(stack, start=1):
                    memcells[k] = b
                r = h.step(op, vals)
                stats['transitions'] += 1
                problems = []
                if r['cause'] != 0 or r['exit'] != 'ft':
                    problems.append(('termination', 'falls through', {'cause': r['cause'], 'exit': r.get('exit')}))
                else:
                    if r['vals'] != exp:
                        bad = {k: (exp[k], r['vals'][k]) for k in exp if exp[k] != r['vals'][k]}
                        problems.append(('popped / preserved values', {k: hex(v[0]) for k, v in bad.items()}, {k: hex(v[1]) for k, v in bad.items()}))
                    sp = read_sp(r['snap'])
                    if sp != stack0 + len(stack) * dw:
                        problems.append(('stack pointer', hex(stack0 + len(stack) * dw), hex(sp)))
                    for k in range(1, DEPTHCAP + 1):
                        if cell(r['snap'], k) != memcells.get(k, 0):
                            problems.append((f'stack cell {k}', hex(memcells.get(k, 0)), hex(cell(r['snap'], k))))
                    fd = h.frame_diffs(op, r['snap'], r['vals'], extra_allowed=shared | stack_words)
                    if fd:
                        problems.append(('frame: words outside the stack changed', 'unchanged', [{'word': x[0], 'was': x[1], 'now': x[2], 'at': x[3]} for x in fd[:4]]))
                if problems:
                    sieve.add({'kind': 'stack is not last-in-first-out / not confined', 'class': f'stack {op} {problems[0][0]}',
                               'case': {'family': 'stack', 'w': w, 'sequence': list(seq), 'failed_at': step_i},
                               'expected': {p[0]: p[1] for p in problems}, 'observed': {p[0]: p[2] for p in problems},
                               'summary': f'w={w} stack sequence {list(seq)} step {step_i} ({op}): {[p[0] for p in problems]}'})
                    break
                vals = exp
            # get_sp at the end of the sequence
            r = h.step('get_sp', vals)
            stats['transitions'] += 1
            if r['cause'] == 0 and r['vals'].get('q') != stack0 + len(stack) * dw:
                sieve.add({'kind': 'stl.get_sp differs from sp', 'class': 'get_sp', 'case': {'family': 'stack', 'w': w, 'sequence': list(seq)},
                           'expected': hex(stack0 + len(stack) * dw), 'observed': hex(r['vals'].get('q', -1)), 'summary': f'w={w} get_sp after {list(seq)}'})
    stats['states'] = seqs
    return stats, sieve.result(), {'w': w, 'stack_sequences_starting_with': first, 'count': seqs}


# ------------------------------------------------------------------ call / return trees
def call_trees(depth):
    """a tree = tuple of (kind, subtree) children; kinds: c = call, p = call with 1 stack parameter, f = fcall."""
    if depth == 0:
        return [()]
    subs = call_trees(depth - 1)
    out = [()]
    kinds = ('c', 'p', 'f')
    for k in kinds:
        for s in subs:
            out.append(((k, s),))
    for (k1, k2) in itertools.product(kinds, repeat=2):
        for s1 in subs[:5]:
            for s2 in subs[:2]:
                out.append(((k1, s1), (k2, s2)))
    return out


def build_call_program(tree):
    """-> (program text, expected output bytes). every function prints '<' id on entry and '>' id on exit."""
    funcs = []
    expected = []
    counter = [0]

    def gen(node, depth):
        fid = counter[0]
        counter[0] += 1
        name = f'fn{fid}'
        ch = chr(ord('a') + fid % 26)
        body = [f'{name}:', f"    stl.output '{ch}'"]
        expected.append(ch)
        for kind, sub in node:
            sub_name = gen(sub, depth + 1)
            if kind == 'c':
                body.append(f'    stl.call {sub_name}')
            elif kind == 'p':
                body.append('    hex.push_hex hx')
                body.append(f'    stl.call {sub_name}, 1')
            else:
                body.append(f'    stl.fcall {sub_name}, reg{depth}')
        return name, body, ch

    # iterative generation keeping output order = pre/post-order walk
    def walk(node, depth, via):
        fid = counter[0]
        counter[0] += 1
        name = f'fn{fid}'
        ch = chr(ord('a') + fid % 26)
        lines = [f'{name}:', f"    stl.output '{ch}'"]
        exp = [ch]
        for kind, sub in node:
            sub_name, sub_exp = walk(sub, depth + 1, kind)
            if kind == 'c':
                lines.append(f'    stl.call {sub_name}')
            elif kind == 'p':
                lines.append('    hex.push_hex hx')
                lines.append(f'    stl.call {sub_name}, 1')
            else:
                lines.append(f'    stl.fcall {sub_name}, reg{depth}')
            exp += sub_exp
        lines.append(f"    stl.output '{ch.upper()}'")
        exp.append(ch.upper())
        lines.append('    stl.return' if via in ('c', 'p') else f'    stl.fret reg{depth - 1}' if via == 'f' else '    stl.loop')
        funcs.append('\n'.join(lines))
        return name, exp

    counter[0] = 0
    funcs.clear()
    _, exp = walk(tree, 0, None)
    regs = '\n'.join(f'reg{d}:\n    bit.bit 0' for d in range(5))
    text = 'stl.startup_and_init_all 40\n;fn0\n' + '\n'.join(funcs) + '\nhx:\n    hex.hex 5\n' + regs + '\n'
    return text, ''.join(exp).encode()


def work_calls(task):
    from fjv.asm import assemble_text
    from fjv.enginecheck import scratch
    from flipjump.interpreter import fjm_run
    from flipjump.interpreter.io_devices.FixedIO import FixedIO
    from fjv.runner import watchdog, Watchdog
    _, tier, w, part, nparts = task
    sieve = Sieve(PROP, MATCHERS)
    stats = {'transitions': 0, 'states': 0, 'blocks': 0}
    wd = scratch()
    trees = call_trees(3 if tier == 'thorough' else 2)
    for i, tree in enumerate(trees):
        if i % nparts != part:
            continue
        text, expected = build_call_program(tree)
        out = wd / 'calls.fjm'
        try:
            assemble_text(text, out, wd, w=w, version=1, use_stl=True, werror=False)
            dev = FixedIO(b'')
            with watchdog(20.0):
                st = fjm_run.run(out, io_device=dev)
            got = dev.get_output(allow_incomplete_output=True)
            res = (str(st.termination_cause), got)
        except Watchdog:
            res = ('watchdog', b'')
        except Exception as e:  # noqa
            res = (f'{type(e).__name__}: {str(e)[:100]}', b'')
        stats['transitions'] += 1
        stats['states'] += 1
        if res != ('looping', expected):
            sieve.add({'kind': 'call/return does not resume after the matching call', 'class': 'call tree',
                       'case': {'family': 'calls', 'w': w, 'tree': repr(tree), 'program': text}, 'expected': ['looping', expected.decode()],
                       'observed': [res[0], res[1].decode('latin1')], 'summary': f'w={w} call tree {tree!r}: expected {expected!r} got {res}'})
    return stats, sieve.result(), {'w': w, 'call_trees': len(trees)}


def work(task):
    return {'hexptr': work_hex_ptr, 'hexpairs': work_hex_pairs, 'jump': work_ptr_jump, 'bitptr': work_bit_ptr, 'stack': work_stack, 'calls': work_calls}[task[0]](task)


MATCHERS = {}


def make_tasks(tier, only=None):
    tasks = []
    widths = (64, 32)
    for w in widths:
        for p in range(8):
            tasks.append(('hexptr', tier, w, p, 8))
        for p in range(4):
            tasks.append(('hexpairs', tier, w, p, 4))
        tasks.append(('jump', tier, w, 'hex'))
        for first in STACK_OPS[:4] + ('sp_inc',):
            tasks.append(('stack', tier, w, first))
        for p in range(8):
            tasks.append(('calls', tier, w, p, 8))
    for w in (64, 32, 16):
        n = 8 if w == 16 else 2
        for p in range(n):
            tasks.append(('bitptr', tier, w, p, n))
        tasks.append(('jump', tier, w, 'bit'))
    if only:
        tasks = [t for t in tasks if t[0] == only]
    return tasks


def replay(args):
    rec = load_replay(args.replay)
    c = rec['case']
    fam = c['family']
    print('case:', {k: v for k, v in c.items() if k != 'program'})
    if fam == 'calls':
        print(c['program'])
    print('re-running the family that contains the case ...')
    from fjv.runner import install_watchdog
    install_watchdog()
    tasks = [t for t in make_tasks('quick') if t[0] == fam and t[2] == c['w']]
    bad = 0
    for t in tasks:
        stats, res, _ = work(t)
        for r in res[0]:
            if r['case'].get('block') == c.get('block') or fam in ('calls', 'stack', 'jump'):
                print('STILL FAILS:', r['summary'])
                bad += 1
    if bad:
        print(f'VIOLATION property={PROP} replay={args.replay}')
        return 1
    print('replay: ok')
    return 0


def main():
    args = parse_args(PROP)
    from fjv.bind import bind
    bind('verif')
    if args.replay:
        return replay(args)
    run = Run(PROP, 'model_checking', args, MATCHERS)
    total, samples = {}, []
    for stats, res, sample in pmap(work, make_tasks(args.tier, args.only), args.jobs):
        for k, v in stats.items():
            total[k] = total.get(k, 0) + v
        run.merge(res)
        if sample and len(samples) < 6:
            samples.append(sample)
    vac = []
    if not args.only and total.get('transitions', 0) < 50000:
        vac.append('too few transitions')
    if vac:
        print(f'CHECK-INTERNAL-ERROR vacuous: {vac}', file=sys.stderr)
    cov = {
        'states': total.get('states', 0),
        'transitions': total.get('transitions', 0),
        'traces_validated_against_impl': total.get('transitions', 0),
        'samples': samples or [{'note': 'none'}],
        'blocks': total.get('blocks', 0),
        'bounds': {'buffer_cells': K, 'guard_cells': 3, 'hex_pointer_widths': [64, 32], 'bit_pointer_widths': [64, 32, 16],
                   'stack_sequences': 'all sequences of <= %d operations over %s with depth 0..6' % (6 if args.tier == 'thorough' else 4, list(STACK_OPS)),
                   'call_trees': 'depth <= %d, fan-out <= 2, kinds call / call+parameter / fcall' % (3 if args.tier == 'thorough' else 2)},
        'exhaustive': not vac,
    }
    code = run.finish(cov, assumptions=[
        'pointers hold dw-aligned addresses inside the fenced buffer (the macros document that assumption); accesses that would leave the buffer are not generated',
        'to_flip / to_jump / their _var copies / read_byte / nth_ptr / sp are documented shared state: exempt from the frame, checked by the mirror invariant and the stack model',
        'hex writes keep the upper nibble of a byte cell (write_hex xors only the low hex)'])
    return 2 if vac and not code else code


if __name__ == '__main__':
    main_guard(main)
