"""C04 - hex library macros compute their documented function for every operand.

Explicit-state search (K2b) on the real stl, assembled by the real assembler and executed by the
working-tree native engine: states = (all operand values x the block's scratch residue), transitions
= one documented macro form executed from its block entry. hex n=1 and n=2 exhaustively (n=3/4 over
a boundary alphabet), single-hex forms exhaustively; oracle = the doc-comment formulas (R6,
fjv/stlspec.py) + the documented exit + the whole-image frame invariant (nothing outside the
destination variables and the block's own scratch changes - no stale carry / table state).
Residue closure: every distinct scratch residue a block can leave is re-explored against every
operand tuple; mixed sequences of blocks are compared with the composed model.
"""
import itertools
import sys

from fjv.runner import Run, Sieve, parse_args, pmap, load_replay, main_guard

PROP = 'C04'
NS = 'hex'
VARS = ('a', 'b', 'c', 'd')


def spec_groups(n, single=False):
    from fjv import stlspec
    specs = stlspec.hex1_specs() if single else stlspec.hex_specs(n)
    heavy = {'mul', 'mul_square', 'div', 'idiv0', 'idiv1', 'idiv2', 'idiv_badopt', 'add_mul'}
    heavy |= {s.name for s in specs if '_q' in s.name and '_r' in s.name}  # in-place forms
    light = [s for s in specs if s.name not in heavy]
    groups = [light[i::4] for i in range(4)]
    groups += [[s] for s in specs if s.name in heavy]
    return [g for g in groups if g]


def make_tasks(tier):
    tasks = []
    widths = (64, 32) if tier == 'thorough' else (64,)
    for w in widths:
        for gi in range(len(spec_groups(1, True))):
            tasks.append((tier, w, 1, True, gi, 1 << 16))
        for n in (1, 2):
            for gi in range(len(spec_groups(n))):
                tasks.append((tier, w, n, False, gi, 1 << 16))
    if tier == 'thorough':
        for w in (64, 32):
            for n in (3, 4):
                for gi in range(len(spec_groups(n))):
                    tasks.append((tier, w, n, False, gi, 1 << 13))
        for gi in range(len(spec_groups(2))):
            tasks.append((tier, 16, 2, False, gi, 1 << 12))
    else:
        for gi in range(len(spec_groups(2))):
            tasks.append((tier, 32, 2, False, gi, 1 << 10))
    # vector-length sweep: every block at every length 1..20 (thorough: ..40 and 64, 130) over a boundary alphabet
    lengths = list(range(3, 21)) if tier != 'thorough' else list(range(3, 41)) + [64, 130]
    for n in lengths:
        for gi in range(len(spec_groups(n))):
            tasks.append((tier, 64 if n % 2 else 32, n, False, gi, 64 if tier != 'thorough' else 256))
    tasks.append((tier, 64, 1, 'mixed', 0, 0))
    tasks += [('pending-carries', tier, w_) for w_ in (64, 32)]
    # table placement: the six truth tables allocated one by one (hex.tables.init_shared + hex.<t>.init, what each macro's documentation asks
    # for) in every rotation of the library's order, starting `filler` ops after a 1024-op boundary - so each table is met at several
    # placements relative to its own alignment, not only where hex.init happens to put it
    for rot in range(len(TABLES)):
        for filler in ((0, 256, 512, 768) if tier == 'thorough' else (0, 256)):
            for gi in range(len(spec_groups(2))):
                tasks.append((tier, 64 if (rot + filler // 256) % 2 else 32, 2, ('placed', rot, filler), gi, 1 << (12 if tier == 'thorough' else 9)))
    return tasks


TABLES = ('or', 'and', 'mul', 'cmp', 'add', 'sub')


def work_pending_carries(task):
    """the documented single-hex primitives leave a carry pending on purpose (hex.add: the add carry; hex.add_mul res, x: the high nibble of
    its product). every n-hex macro that follows must start from a clean carry: for each of the 16 values of the pending mul carry and for a
    pending add carry, each n-hex consumer (mul10, add_mul n, mul, add, sub, inc) gives its documented result. one program per width."""
    from fjv.enginecheck import scratch
    from fjv.asm import assemble_text
    from flipjump.interpreter import fjm_run
    from flipjump.interpreter.io_devices.FixedIO import FixedIO
    _, tier, w = task
    sieve = Sieve(PROP, MATCHERS)
    stats = {'transitions': 0, 'states': 0, 'blocks': 0}
    code, data, expected = ['stl.startup_and_init_all'], [], []
    k = [0]

    def var(n, value):
        k[0] += 1
        data.append(f'pc{k[0]}: hex.vec {n}, {value:#x}')
        return f'pc{k[0]}'

    def show(n, name, what, value):
        code.append(f'hex.print_uint {n}, {name}, 1, 0')
        code.append("stl.output '\\n'")
        expected.append((what, value & ((1 << (4 * n)) - 1)))
    # one (r0, x0, b) per value of the pending carry (r0 + x0*b) >> 4
    pend = {}
    for r0, x0, b in itertools.product(range(16), repeat=3):
        pend.setdefault((r0 + x0 * b) >> 4, (r0, x0, b))
    assert sorted(pend) == list(range(16))
    n = 3
    for carry, (r0, x0, b) in sorted(pend.items()) + [('add', (0, 0, 0))]:
        consumers = [('mul10', lambda y: [f'hex.mul10 {n}, {y}'], 0x1c7 * 10, 0x1c7, None),
                     ('add_mul', lambda y: [f'hex.add_mul {n}, {y}, {var(n, 0x234)}, {var(1, 0x3)}'], 0x111 + 0x234 * 3, 0x111, None),
                     ('mul', lambda y: [f'hex.mul {n}, {y}, {var(n, 0x01b)}, {var(n, 0x025)}'], 0x01b * 0x025, 0xabc, None),
                     ('add', lambda y: [f'hex.add {n}, {y}, {var(n, 0x0ff)}'], 0x301 + 0x0ff, 0x301, None),
                     ('sub', lambda y: [f'hex.sub {n}, {y}, {var(n, 0x0ff)}'], 0x301 - 0x0ff, 0x301, None),
                     ('inc', lambda y: [f'hex.inc {n}, {y}'], 0x2ff + 1, 0x2ff, None)]
        for cname, call, want, start, _ in consumers:
            if carry == 'add':
                d_, s_ = var(1, 0xf), var(1, 0x3)
                code.extend(['hex.add.clear_carry', f'hex.add {d_}, {s_}'])   # single-hex add that overflows: carry pending
                tag = 'a pending add carry'
            else:
                r_, x_, b_ = var(1, r0), var(1, x0), var(1, b)
                code.extend(['hex.mul.clear_carry', f'hex.xor hex.mul.dst, {b_}', f'hex.add_mul {r_}, {x_}', f'hex.xor hex.mul.dst, {b_}'])
                show(1, r_, f'single-hex add_mul {r0:#x}+{x0:#x}*{b:#x} (low hex)', r0 + x0 * b)
                tag = f'a pending mul carry of {carry:#x}'
            y = var(n, start)
            code.extend(call(y))
            show(n, y, f'hex.{cname} right after {tag}', want)
    text = '\n'.join(code + ['stl.loop'] + data) + '\n'
    wd = scratch()
    out = wd / f'pending-{w}.fjm'
    assemble_text(text, out, wd, w=w, version=1, use_stl=True, werror=False)
    dev = FixedIO(b'')
    st = fjm_run.run(out, io_device=dev, print_time=False) if 'print_time' in fjm_run.run.__code__.co_varnames else fjm_run.run(out, io_device=dev)
    got = dev.get_output(allow_incomplete_output=True).decode('latin1').split('\n')
    stats['transitions'] = stats['states'] = len(expected)
    stats['blocks'] = 1
    for i, (what, value) in enumerate(expected):
        line = got[i].strip().lower() if i < len(got) else '<missing>'
        try:
            ok = int(line, 16) == value
        except ValueError:
            ok = False
        if not ok:
            sieve.add({'kind': 'a pending single-hex carry leaks into the next macro', 'class': f'pending carry: {what.split(" right after ")[0]}',
                       'case': {'w': w, 'family': 'pending-carries', 'step': what, 'program_head': text[:300]}, 'expected': hex(value), 'observed': line,
                       'summary': f'w={w} {what}: printed {line!r} instead of {value:#x} (termination {st.termination_cause})'})
    return stats, sieve.result(), {'w': w, 'pending_carry_steps': len(expected)}, len(expected)


def work(task):
    from fjv.enginecheck import scratch
    from fjv.stlharness import Harness
    from fjv import stlcheck
    if task[0] == 'pending-carries':
        return work_pending_carries(task)
    tier, w, n, single, gi, budget = task
    sieve = Sieve(PROP, MATCHERS)
    stats = {'transitions': 0, 'states': 0, 'blocks': 0}
    wd = scratch()
    case_base = {'w': w, 'n': n, 'ns': NS, 'single': bool(single is True)}
    try:
        if single == 'mixed':
            from fjv import stlspec
            names = ('add', 'sub', 'inc', 'neg', 'or', 'cmp', 'shl_bit', 'mul', 'mov', 'xor_zero', 'if', 'min')
            specs = [s for s in stlspec.hex_specs(1) if s.name in names]
            h = Harness(w, NS, 1, [(v, 1) for v in VARS], specs, wd, tag=f'c04-mixed')
            stlcheck.mixed_sequences(h, specs, 4, 3 if tier == 'thorough' else 2, sieve, stats, case_base)
            stats['states'] += 1
            return stats, sieve.result(), {'mixed_sequences_of': [s.name for s in specs]}, 0
        if isinstance(single, tuple):
            _, rot, filler = single
            specs = spec_groups(n)[gi]
            case_base = dict(case_base, single=False, tables=list(TABLES[rot:] + TABLES[:rot]), filler=filler)
            h = Harness(w, NS, n, [(v, n) for v in VARS], specs, wd, init=('placed', TABLES[rot:] + TABLES[:rot], filler), tag=f'c04-p{rot}-{filler}-{gi}')
        else:
            specs = spec_groups(n, single)[gi]
            h = Harness(w, NS, n, [(v, n) for v in VARS], specs, wd, tag=f'c04-{w}-{n}-{gi}')
    except Exception as e:  # noqa
        if 'Not enough space' in str(e) or 'FlipJump' in type(e).__name__:
            stats['harness_not_assemblable'] = 1
            stats['note'] = 0
            return stats, sieve.result(), {'skipped': f'w={w} n={n} group {gi}: {type(e).__name__}: {str(e)[:120]}'}, 0
        raise
    outcomes = 0
    for spec in specs:
        outcomes += stlcheck.explore_block(h, spec, 4 * n, budget, sieve, stats, case_base, closure=(n <= 2 or tier == 'thorough'))
    sample = {'w': w, 'n': n, 'blocks': [s.name for s in specs], 'program_head': h.text[:300]}
    return stats, sieve.result(), sample, outcomes


# ---- known findings
def k_idiv_zero_rem(rec, sig):
    """F12: hex.idiv rem_opt 0/2, the unsigned remainder is 0 and the signs select the adjustment path"""
    c = rec['case']
    if c['block'] not in ('idiv0', 'idiv2'):
        return False
    bits = 4 * c['n']
    from fjv.stlspec import sgn
    a, b = sgn(c['operands']['a'], bits), sgn(c['operands']['b'], bits)
    return b != 0 and abs(a) % abs(b) == 0 and set(rec['expected']) <= {'values'}


MATCHERS = {'hex_idiv_zero_remainder_adjusted': k_idiv_zero_rem}


def replay(args):
    from fjv.enginecheck import scratch
    from fjv.stlharness import Harness
    from fjv import stlcheck, stlspec
    rec = load_replay(args.replay)
    c = rec['case']
    if 'block' not in c:
        print('sequence case: re-run the check')
        return 1
    specs = stlspec.hex1_specs() if c['single'] else stlspec.hex_specs(c['n'])
    spec = [s for s in specs if s.name == c['block']][0]
    init = ('placed', tuple(c['tables']), c['filler']) if c.get('tables') else 'all'
    h = Harness(c['w'], NS, c['n'], [(v, c['n']) for v in VARS], [spec], scratch(), init=init, tag='replay')
    mask = (1 << (4 * c['n'])) - 1
    for prev in c.get('previous', [])[:-1] if c.get('phase') == 'chain' else []:
        v = {nm: stlcheck.SENTINEL[nm] & mask for nm in VARS}
        v.update(zip(spec.operands, prev))
        h.step(spec.name, v)
    v = {k: int(x) for k, x in c['vals'].items()}
    upd, exit_ = spec.model(v)
    exp = dict(v)
    exp.update({k: x & mask for k, x in upd.items()})
    r = h.step(spec.name, v)
    fd = h.frame_diffs(spec.name, r['snap'], r['vals']) if r.get('snap') else 'n/a'
    print('call:', c['call'], '\nvals:', v, '\nexpected:', exp, exit_, '\nobserved:', r['vals'], r['exit'], 'cause', r['cause'], '\nframe diffs:', fd)
    if r['cause'] != 0 or r['vals'] != exp or r['exit'] != exit_ or fd:
        print(f'VIOLATION property={PROP} replay={args.replay}')
        return 1
    print('replay: ok (if the original failure depended on a scratch residue, re-run the check)')
    return 0


def main():
    args = parse_args(PROP)
    from fjv.bind import bind
    bind('verif')
    if args.replay:
        return replay(args)
    run = Run(PROP, 'model_checking', args, MATCHERS)
    total, samples, outcomes = {}, [], 0
    for stats, res, sample, oc in pmap(work, make_tasks(args.tier), args.jobs):
        for k, v in stats.items():
            total[k] = total.get(k, 0) + v
        run.merge(res)
        outcomes += oc
        if sample and (len(samples) < 3 or 'skipped' in sample):
            samples.append(sample)
    vac = []
    if total.get('blocks', 0) < 50 or total.get('transitions', 0) < 100000:
        vac.append('too few blocks / transitions')
    if vac:
        print(f'CHECK-INTERNAL-ERROR vacuous: {vac}', file=sys.stderr)
    cov = {
        'states': total.get('states', 0),
        'transitions': total.get('transitions', 0),
        'traces_validated_against_impl': total.get('transitions', 0),
        'samples': samples[:6] or [{'note': 'none'}],
        'blocks_explored': total.get('blocks', 0),
        'distinct_scratch_residues': total.get('residues', 0),
        'residue_cap_hit': total.get('residue_cap_hit', 0),
        'blocks_on_boundary_alphabet': total.get('boundary_alphabet_blocks', 0),
        'distinct_model_outcomes': outcomes,
        'harness_not_assemblable': total.get('harness_not_assemblable', 0),
        'bounds': {'exhaustive_operands': 'n=1, n=2 (two operands: 65 536 pairs) and single-hex forms at w=64; boundary alphabet otherwise',
                   'widths': [64, 32] + ([16] if args.tier == 'thorough' else []), 'residues_per_block_cap': 24, 'vector_lengths': '1, 2 exhaustive; 3..20 (thorough 3..40, 64, 130) over a boundary alphabet'},
        'exhaustive': not vac and not total.get('residue_cap_hit'),
    }
    code = run.finish(cov, assumptions=[
        'R6 (fjv/stlspec.py) transcribes the doc-comment formulas; a state is (variables, image): the machine is deterministic, equal images have equal futures',
        'words 0..3 (the no-flip sink at address 0, the dummy variable at address 0 and the IO cells) are exempt from the frame invariant',
        'blocks are entered at their first op from the engine API (Memory.run(start_ip=...)), the stl init area is static data'])
    return 2 if vac and not code else code


if __name__ == '__main__':
    main_guard(main)
