"""C03 - macro expansion is hygienic inlining.

K1: 14 structural skeletons (call depth <= 3, arity overloading, @ locals, < globals, > externs,
namespaces with dotted / relative names, rep with n in {0,1,2,3}, nested reps, rep in a macro called
from a rep, `$`, a local passed down, a label declared through a parameter) x EVERY assignment of
the colliding identifier pool {a, b, i} to the skeleton's name slots x w x every 2-way (thorough:
3-way) split of the source into files. Oracle R4 (fjv/ref/macro.py): the program is inlined on the
generator's AST and the macro-free result goes through the real assembler; the two images must be
identical, and so must the image of every file split. Each worker process first assembles (with the
standard library) a program that defines a, b, i as constants; every program is then also assembled
next to the standard library and must give the same image (no capture across assemblies).
"""
import itertools
import sys

from fjv.bind import bind
from fjv.runner import Run, Sieve, parse_args, pmap, load_replay, main_guard

PROP = 'C03'


def assemble_image(texts, w, wd, tag, use_stl=False, werror=False):
    """-> ('ok', normalized image) | ('rejected', msg) | ('raw', msg)"""
    from fjv.asm import assemble_text
    from fjv.ref import fjm as R2
    from flipjump.fjm.fjm_reader import Reader
    from flipjump.utils.exceptions import FlipJumpException
    out = wd / f'c03-{tag}.fjm'
    try:
        assemble_text(texts, out, wd, w=w, version=1, use_stl=use_stl, werror=werror)
    except FlipJumpException as e:
        return ('rejected', f'{type(e).__name__}: {str(e)[:300]}')
    except Exception as e:  # noqa
        return ('raw', f'{type(e).__name__}: {str(e)[:200]}')
    return ('ok', R2.normalize(*R2.reader_image(Reader(out))))


PRIME = 'a = 3\nb = 5\ni = 7\nx = a + b\nq:\n  ;q + a*dw\n  b;q + i\n'


def prime(w, wd):
    """the process's first assembly with the standard library defines every pool name as a constant"""
    r = assemble_image(PRIME, w, wd, 'prime', use_stl=True)
    assert r[0] == 'ok', r
    return True


def check_program(name, slots, program, w, wd, sieve, stats, split_depth, primed=False):
    from fjv.ref import macro as R4
    chunks = R4.top_level_chunks(program)
    text = ''.join(chunks)
    case = {'skeleton': name, 'slots': list(slots), 'w': w, 'text': text}

    def bad(kind, expected, observed, extra=None):
        rec = {'kind': kind, 'class': f'{kind} [{name}]', 'case': dict(case, **(extra or {})), 'expected': expected, 'observed': observed,
               'summary': f'{name} slots={slots} w={w}: {kind}'}
        sieve.add(rec)

    try:
        prim, instances = R4.inline(program)
    except R4.InlineError as e:
        stats['generator_rejects'] = stats.get('generator_rejects', 0) + 1
        return None
    prim_text = R4.render_primitive(prim)
    ref = assemble_image(prim_text, w, wd, 'ref')
    stats['assemblies'] += 1
    if ref[0] != 'ok':
        # the inlined program itself is not assemblable (a label declared twice, a word out of range at this width): then the macro
        # program has no image either
        stats['reference_not_assemblable'] = stats.get('reference_not_assemblable', 0) + 1
        got = assemble_image(text, w, wd, 'orig')
        stats['assemblies'] += 1
        if got[0] == 'ok':
            bad('macro program assembles although its inlining is rejected', ref[1], 'assembled', {'inlined': prim_text})
        return None
    got = assemble_image(text, w, wd, 'orig')
    stats['assemblies'] += 1
    stats['programs'] += 1
    if got[0] != 'ok':
        bad('macro program rejected although its inlining assembles', 'assembles', got[1], {'inlined': prim_text})
        return None
    if got[1] != ref[1]:
        diff = sorted(set(got[1][0].items()) ^ set(ref[1][0].items()))[:8]
        bad('image differs from the inlined program', 'identical images', {'differing (word, value) pairs': diff, 'segments': [got[1][1], ref[1][1]]},
            {'inlined': prim_text})
        return None
    # warnings as errors (the default of the tools): a skeleton whose programs are warning-free stays so under every spelling of its names
    from fjv import gen_macros
    if name in gen_macros.WARNING_FREE:
        strict = assemble_image(text, w, wd, 'strict', werror=True)
        stats['assemblies'] += 1
        stats['strict_mode_programs'] = stats.get('strict_mode_programs', 0) + 1
        if strict[0] != 'ok' or strict[1] != got[1]:
            bad('a warning-free program is refused (or changed) when warnings are errors', 'the same image',
                strict[1] if strict[0] != 'ok' else 'different image', None)
            return None
    # the same program next to the standard library, in a process whose first assembly defined the pool's names as constants:
    # the program's own names keep their meaning (the stl only defines macros / namespaced constants, so the image is the same)
    if primed:
        lib = assemble_image(text, w, wd, 'stl', use_stl=True)
        stats['assemblies'] += 1
        stats['with_stl_after_constants'] = stats.get('with_stl_after_constants', 0) + 1
        if lib[0] != 'ok' or lib[1] != got[1]:
            bad('names captured by constants that an earlier program of the same process defined', 'the image of the program alone',
                lib[1] if lib[0] != 'ok' else 'different image', {'earlier_program': PRIME})
            return None
    # file splits
    n = len(chunks)
    cuts = [(k,) for k in range(1, n)]
    if split_depth >= 3:
        cuts += list(itertools.combinations(range(1, n), 2))
    for cut in cuts:
        bounds = (0,) + cut + (n,)
        files = [''.join(chunks[a:b]) for a, b in zip(bounds, bounds[1:])]
        sp = assemble_image(files, w, wd, 'split')
        stats['assemblies'] += 1
        stats['splits'] += 1
        if sp[0] != 'ok' or sp[1] != got[1]:
            bad('image depends on how the source is split into files', 'identical images', sp[1] if sp[0] != 'ok' else 'different image', {'cut': list(cut)})
            break
    return True


CONST_NAMES = ('K', 'J', 'w')


def work_constants(task):
    """constants next to macro names: a constant of a namespace (written `.C` inside it) and a parameter / @-local of a macro of that namespace
    that is merely SPELLED like it are different names - plain `C` in the body is the parameter. A parameter spelled like a constant that is
    visible under its plain spelling (the built-in `w`, a top-level constant) cannot be told apart from it: such a macro may be refused, but if
    it is accepted the parameter must win (the image of the inlined program), never the constant's value."""
    from fjv.enginecheck import scratch
    _, tier, w, _ = task
    sieve = Sieve(PROP)
    stats = {'assemblies': 0, 'programs': 0, 'splits': 0, 'with_collision': 0}
    wd = scratch()
    inlined = '100;\n101;\n3;e1\ne1:\n200;\n3;e2\ne2:\n;k1\nk1:\n3;\n9;\n5;\nloop:\n;loop\n'
    ref = assemble_image(inlined, w, wd, 'ref')
    assert ref[0] == 'ok', ref
    for C, P, X, Q, top in itertools.product(CONST_NAMES, CONST_NAMES, CONST_NAMES, CONST_NAMES, (False, True)):
        if C == 'w' and top:
            continue   # `w = 3` at top level redefines the built-in
        defs = (f'{C} = 3\n' if top else '') + 'ns n {\n' + ('' if top else f'    {C} = 3\n') + \
            f'    def cell x {{\n        x;\n    }}\n    def fill {P}, v @ end {{\n        rep({P}, i) .cell v+i\n        {"" if top else "."}{C};end\n      end:\n    }}\n' \
            f'    def mark @ {X} {{\n        ;{X}\n      {X}:\n        {"" if top else "."}{C};\n    }}\n    def put {Q}, v {{\n        v;\n        {Q};\n    }}\n}}\n'
        calls = 'n.fill 2, 100\nn.fill 1, 200\nn.mark\nn.put 5, 9\nloop:\n;loop\n'
        # names visible under their plain spelling inside the macros: the built-in w, and the constant itself when it is a top-level one
        plain_constants = {'w'} | ({C} if top else set())
        may_reject = bool({P, X, Q} & plain_constants) or (top and C in (P, X, Q))
        stats['programs'] += 1
        stats['with_collision'] += int(len({C, P, X, Q}) < 4)
        for name, files in (('one file', defs + calls), ('two files', [defs, calls])):
            got = assemble_image(files, w, wd, 'consts')
            stats['assemblies'] += 1
            problem = None
            if got[0] == 'raw':
                problem = ('outcome', 'an image or a diagnostic', got[1])
            elif got[0] == 'rejected' and not may_reject:
                problem = ('outcome', 'assembles (the inlined program does)', got[1])
            elif got[0] == 'ok' and got[1] != ref[1]:
                problem = ('image', 'the image of the inlined program', sorted(set(got[1][0].items()) ^ set(ref[1][0].items()))[:8])
            if problem:
                sieve.add({'kind': 'constants and macro names: the program differs from its inlining', 'class': f'constants {problem[0]}',
                           'case': {'skeleton': 'constants', 'w': w, 'constant': C, 'top_level_constant': top, 'fill_param': P, 'mark_local': X, 'put_param': Q,
                                    'files': name, 'text': defs + calls, 'inlined': inlined, 'may_be_refused': may_reject},
                           'expected': problem[1], 'observed': problem[2],
                           'summary': f'constant {"" if top else "n."}{C}, parameters {P}/{Q}, local {X}, w={w}, {name}: {problem[0]} {str(problem[2])[:120]}'})
                break
    return stats, sieve.result(), None, {'constants-vs-macro-names': stats['programs']}


def work_deep(task):
    """the same argument handed down a chain of N macros (N up to just below the default depth limit), alone and through a rep at
    every level: the image equals the two-statement program `L: ;L` / its rep form, whatever the parameter is called."""
    from fjv.enginecheck import scratch
    _, tier, w, depth = task
    sieve = Sieve(PROP)
    stats = {'assemblies': 0, 'programs': 0, 'splits': 0, 'with_collision': 0}
    wd = scratch()
    for P, L, via_rep in itertools.product(POOL_DEEP, POOL_DEEP, (False, True, 'zero-rep-at-the-bottom')):
        body = (lambda k: f'rep(1, i) c{k + 1} {P}' if via_rep is True else f'c{k + 1} {P}')
        # third form: the innermost macro also holds a rep of count 0 (of the chain itself): it expands to nothing, so it is no nesting level
        bottom = f'    rep(0, i) c0 {P}+i\n    rep({P}-{P}, i) c0 i\n' if via_rep == 'zero-rep-at-the-bottom' else ''
        text = ''.join(f'def c{k} {P} {{\n    {body(k)}\n}}\n' for k in range(depth)) + f'def c{depth} {P} {{\n    ;{P}\n{bottom}    {P};\n}}\n{L}:\nc0 {L}\nc0 {L}+2*w\n'
        ref_text = f'{L}:\n;{L}\n{L};\n;{L}+2*w\n{L}+2*w;\n'
        ref = assemble_image(ref_text, w, wd, 'ref')
        got = assemble_image(text, w, wd, 'orig')
        stats['assemblies'] += 2
        stats['programs'] += 1
        stats['with_collision'] += int(P == L)
        if got != ref:
            sieve.add({'kind': 'deep call chain differs from its inlining', 'class': f'deep chain {depth}',
                       'case': {'skeleton': 'deep-chain', 'depth': depth, 'param': P, 'label': L, 'via_rep': via_rep, 'w': w, 'text': text[:400] + ' ...'},
                       'expected': ref if ref[0] != 'ok' else 'the image of ' + repr(ref_text), 'observed': got if got[0] != 'ok' else 'another image',
                       'summary': f'chain of {depth} macros (param {P}, label {L}, via_rep={via_rep}) w={w}: {got[0]} {str(got[1])[:120] if got[0] != "ok" else "different image"}'})
    return stats, sieve.result(), None, {f'deep-chain-{depth}': 8}


POOL_DEEP = ('a', 'b')


def work(task):
    from fjv.enginecheck import scratch
    from fjv import gen_macros
    if task[0] == 'deep':
        return work_deep(task)
    if task[0] == 'constants':
        return work_constants(task)
    tier, w, part, nparts = task
    sieve = Sieve(PROP)
    stats = {'assemblies': 0, 'programs': 0, 'splits': 0, 'with_collision': 0}
    wd = scratch()
    sample = None
    per_skeleton = {}
    primed = prime(w, wd)
    for i, (name, slots, program, collisions) in enumerate(gen_macros.programs()):
        if i % nparts != part:
            continue
        r = check_program(name, slots, program, w, wd, sieve, stats, 3 if tier == 'thorough' else 2, primed)
        if r:
            per_skeleton[name] = per_skeleton.get(name, 0) + 1
            if collisions:
                stats['with_collision'] += 1
            if sample is None and collisions >= 2:
                from fjv.ref import macro as R4
                sample = {'skeleton': name, 'slots': list(slots), 'w': w, 'text': ''.join(R4.top_level_chunks(program))}
    return stats, sieve.result(), sample, per_skeleton


def replay(args):
    from fjv.enginecheck import scratch
    from fjv import gen_macros
    rec = load_replay(args.replay)
    c = rec['case']
    if c.get('skeleton') == 'deep-chain':
        st, res, _, _ = work_deep(('deep', 'quick', c['w'], c['depth']))
        for r in res[0]:
            print('PROBLEM', r['summary'])
        if res[0]:
            print(f'VIOLATION property={PROP} replay={args.replay}')
            return 1
        print('replay: ok')
        return 0
    sk = [s for s in gen_macros.SKELETONS if s[0] == c['skeleton']][0]
    program = sk[3](tuple(c['slots']))
    sieve = Sieve(PROP)
    stats = {'assemblies': 0, 'programs': 0, 'splits': 0}
    wd = scratch()
    check_program(c['skeleton'], tuple(c['slots']), program, c['w'], wd, sieve, stats, 3, prime(c['w'], wd))
    print(c['text'])
    for r in sieve.records:
        print('PROBLEM', r['summary'], r['observed'])
        print('inlined program:\n' + r['case'].get('inlined', ''))
    if sieve.records:
        print(f'VIOLATION property={PROP} replay={args.replay}')
        return 1
    print('replay: ok')
    return 0


def main():
    args = parse_args(PROP)
    bind('plain')
    if args.replay:
        return replay(args)
    run = Run(PROP, 'exploration', args)
    widths = (16, 32, 64) if args.tier == 'thorough' else (16, 64)
    tasks = [(args.tier, w, p, 16) for w in widths for p in range(16)]
    tasks += [('deep', args.tier, w, d) for w in widths for d in (45, 440, 600, 850, 898)]
    tasks += [('constants', args.tier, w, 0) for w in widths]
    total, samples, per = {}, [], {}
    for stats, res, sample, ps in pmap(work, tasks, args.jobs):
        for k, v in stats.items():
            total[k] = total.get(k, 0) + v
        for k, v in ps.items():
            per[k] = per.get(k, 0) + v
        run.merge(res)
        if sample and len(samples) < 3:
            samples.append(sample)
    from fjv import gen_macros
    vac = [s[0] for s in gen_macros.SKELETONS if not per.get(s[0])]
    if vac:
        print(f'CHECK-INTERNAL-ERROR vacuous: skeletons without a compared program: {vac}', file=sys.stderr)
    cov = {
        'evaluations': total.get('assemblies', 0),
        'distinct_nontrivial': total.get('with_collision', 0),
        'rule': 'evaluations = assemblies (macro program, its inlined form, every file split); non-trivial = compared programs in which at least two '
                'name slots received the same identifier (programs are distinct (skeleton, slot assignment, width) triples)',
        'samples': samples or [{'note': 'none'}],
        'programs_compared': total.get('programs', 0),
        'file_splits_compared': total.get('splits', 0),
        'programs_per_skeleton': per,
        'reference_not_assemblable': total.get('reference_not_assemblable', 0),
        'bounds': {'skeletons': [s[0] for s in gen_macros.SKELETONS], 'identifier_pool': list(gen_macros.POOL), 'widths': list(widths),
                   'file_splits': 'all 2-way' + (' and 3-way' if args.tier == 'thorough' else '')},
        'exhaustive': not vac,
    }
    code = run.finish(cov, assumptions=[
        'R4 (fjv/ref/macro.py) is the inlining semantics; primitives are assembled by the real assembler on both sides (that part is C02)',
        'well-formedness: parameters and @-locals of one macro are distinct; a relative .name inside a macro never equals its own parameter/local'])
    return 2 if vac and not code else code


if __name__ == '__main__':
    main_guard(main)
