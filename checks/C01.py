"""C01 - every engine executes the FlipJump machine semantics exactly.

Bounded-exhaustive: all memory images over the symbolic word alphabet V(w,L) x segment layouts x
all environment (input / end-of-input) answers within R reads x {featured+trace, fast, native;
with and without the last-ops ring} x w in {8,16,32,64}; oracle = the reference machine R1
(full ip/flip/jump trace, IO call sequence, cause, op count, fault address).
"""
import itertools
import sys

from fjv.bind import bind
from fjv.runner import Run, Sieve, parse_args, pmap, load_replay, main_guard

PROP = 'C01'
WIDTHS = (8, 16, 32, 64)
RUNS = (('trace', 'ring'), ('fast', 'ring'), ('fast', None), ('native', 'ring'), ('native', None))
# the native engine's page-backed loop (forced by FLIPJUMP_NO_FLAT) - added for the layouts with a far segment
RUNS_PAGED = RUNS + (('native-paged', 'ring'), ('native-paged', None))
PAGED_LAYOUTS = ('two-', 'page-edge', 'lazy-desc')


def layouts(w, tier):
    """name -> (segments, positions, alphabet, fixed words)"""
    from fjv.enginecheck import word_alphabet
    ww = w.bit_length() - 1
    top = (1 << (w - ww)) - 2  # the last bit-addressable op (word address)
    out = {}
    out['one4'] = ([(0, 4)], [0, 1, 2, 3], word_alphabet(w, 4), {})
    out['one2'] = ([(0, 2)], [0, 1], word_alphabet(w, 2), {})
    # two segments: code [0,4) + far op at S. sub-alphabet built around S.
    for name, S in (('gap', 6), ('top', top), ('beyond', top + 2)):
        sw = S * w
        sub = [0, 2 * w, 2 * w + 1, w, w + 1, 3 * w + w.bit_length(), 4 * w, sw - 1, sw, sw + 1, sw + w - 1, sw + w,
               (sw + 2 * w - 1), (1 << w) - 1, (1 << w) - w, (1 << w) - 2 * w]
        sub = list(dict.fromkeys(v & ((1 << w) - 1) for v in sub))
        small = [0, 2 * w + 1, sw & ((1 << w) - 1), (sw + 1) & ((1 << w) - 1), w + 1, (sw + w) & ((1 << w) - 1)]
        small = list(dict.fromkeys(small))
        if tier == 'thorough':
            out['two-' + name] = ([(0, 4), (S, 2)], [0, 1, 2, 3, S, S + 1], sub[:12], {})
        else:
            out['two-' + name] = ([(0, 4), (S, 2)], [0, 1, S, S + 1], sub, {2: sw & ((1 << w) - 1), 3: (sw + 1) & ((1 << w) - 1)})
        del small
    # lazy zero tail (segment much longer than its data)
    tail = 4 + 1200
    tw = [0, 2 * w, 2 * w + 1, w + 1, 4 * w, 4 * w + 1, (4 + 600) * w, (tail - 1) * w, (tail - 1) * w + w - 1, tail * w,
          (tail - 2) * w, 3 * w + w.bit_length()]
    tw = [v for v in dict.fromkeys(tw) if v < (1 << w)]
    out['tail'] = ([(0, tail)], [0, 1, 2, 3], tw, {})
    # several lazily-zero segments listed in DESCENDING address order in the file (the reader keeps their zero ranges in file order)
    if w >= 16:
        F1, F2 = 1 << 11, 3 << 11
        lw = [0, 2 * w, 2 * w + 1, (4 + 600) * w, (tail - 1) * w, F1 * w, F1 * w + 1, (F1 + 600) * w, (F1 + 1201) * w, F2 * w, (F2 + 500) * w + 1,
              3 * w + w.bit_length()]
        lw = [v for v in dict.fromkeys(lw) if v < (1 << w)]
        out['lazy-desc'] = ([(F2, 2 + 1000), (F1, 2 + 1200), (0, tail)], [0, 1, 2, 3], lw, {F1: 0, F1 + 1: F1 * w, F2: 2 * w + 1, F2 + 1: F1 * w})
    # a far segment 16 pages away (the same slot of the engine's 16-entry page cache as page 0), ops on the last word of the near segment
    if w >= 32:
        A = 16 << 14
        aw = [0, 2 * w, 2 * w + 1, 3 * w, w + 1, A * w, A * w + 1, (A + 5) * w + 3, (A + 7) * w, (A + 8) * w, 4 * w, 3 * w + w.bit_length()]
        out['two-alias'] = ([(0, 4), (A, 8)], [0, 1, 2, 3], aw, {A: 2 * w + 1, A + 1: 3 * w, A + 2: 0, A + 3: A * w})
    # a far segment whose loaded data starts inside one 16K-word page and runs into the next one
    if w >= 32:
        P = 1 << 14
        pw = [0, 2 * w, 2 * w + 1, (P - 4) * w, (P - 3) * w + 5, (P - 2) * w, (P - 1) * w + 1, P * w, (P + 1) * w + 3, (P + 2) * w, (P + 3) * w, (P + 4) * w]
        out['page-edge'] = ([(0, 4), (P - 4, 8)], [0, 1, 2, 3], pw,
                            {P - 4: 2 * w + 1, P - 3: P * w, P - 2: 2 * w, P - 1: (P + 2) * w, P: 2 * w, P + 1: (P - 2) * w, P + 2: (P - 1) * w + 1, P + 3: (P + 2) * w})
    # an op AT the input bit (ip = 3w+#w, unaligned, spans words 3..5) and right after it
    in_addr = 3 * w + w.bit_length()
    off = in_addr & (w - 1)
    mask = (1 << w) - 1
    a6 = [0, 1, 2 * w + 1]
    for T in (in_addr, 2 * w, 4 * w, in_addr + 1):
        a6 += [(T << off) & mask, T >> (w - off)]
    a6 = list(dict.fromkeys(a6))
    for j1 in (in_addr, in_addr + 1):
        for f0 in (0, 2 * w + 1, in_addr):
            out[f'in6-{j1 - in_addr}-{f0}'] = ([(0, 6)], [2, 3, 4, 5], a6, {0: f0, 1: j1})
    if tier == 'thorough':
        from fjv.enginecheck import word_alphabet as wa
        a6 = wa(w, 6)
        sub6 = [0, 2 * w, 2 * w + 1, 3 * w + w.bit_length(), w + 1, 2 * w + w - 1, 4 * w, 4 * w + 1, 5 * w + w - 1, 6 * w]
        sub6 = list(dict.fromkeys(sub6))
        out['one6'] = ([(0, 6)], [0, 1, 2, 3, 4, 5], sub6, {})
        del a6
    return out


def make_tasks(tier, only=None):
    tasks = []
    for w in WIDTHS:
        for name, (segs, pos, alpha, fixed) in layouts(w, tier).items():
            if only and only not in name:
                continue
            split = 2 if len(alpha) ** len(pos) > 200000 else 1
            for pre in itertools.product(range(len(alpha)), repeat=split):
                tasks.append((tier, w, name, pre))
    return tasks


def check_case(image, answers, r, max_records=3, runs=RUNS):
    """run every engine variant on one (image, answers) case; return violation records."""
    from fjv.enginecheck import write_image, compare, HORIZON
    from fjv.engines import run_engine
    path = write_image(image)
    recs = []
    nruns = 0
    for engine, ring in runs:
        ringlen = HORIZON + 1 if ring else None
        dev = DEVICE(answers)
        o = run_engine(path, engine, dev, ring=ringlen, timeout=1.0)
        nruns += 1
        if o.exc == 'Watchdog':
            WATCHDOGS[0] += 1
        diffs = compare(r, o, ringlen, image.w)
        if diffs and len(recs) < max_records:
            recs.append({
                'kind': 'engine-vs-machine',
                'case': {'image': image.to_json(), 'answers': answers, 'engine': engine, 'ring': ringlen, 'horizon': HORIZON},
                'expected': {d[0]: d[1] for d in diffs},
                'observed': {d[0]: d[2] for d in diffs},
                'ref': {'cause': r.cause, 'ops': r.ops, 'fault': r.fault, 'trace': r.trace, 'io': r.io},
                'summary': f'w={image.w} engine={engine} ring={ringlen} differs from the machine definition in {[d[0] for d in diffs]}',
                'how_to_read': 'image = segments + words; answers = input bits/E(OF) in read order; expected = reference machine R1',
            })
    return recs, nruns


DEVICE = None
WATCHDOGS = [0]  # engine runs that hit the watchdog in this worker; exploration stops after 25 (the run already fails)


def work(task):
    global DEVICE
    if task[0] == 'catalog':
        return work_catalog(task)
    if task[0] == 'pages':
        # chains through 33..131 scattered 16K-word pages (the native page table grows, cache slots are contended): the family of C07
        import checks.C07 as C07
        st, hist, res, sample = C07.work_pages(task, prop=PROP, matchers=MATCHERS)
        stats = {'images': 1, 'cases': 1, 'engine_runs': st['engine_runs'], 'skipped_horizon': 0, 'capped_reads': 0, 'nontrivial': 1}
        return stats, {'many_pages_programs': 1}, res, sample
    from fjv.enginecheck import answer_scripts, features, HORIZON
    from fjv.engines import make_device_class
    from fjv.ref import machine as R1
    if DEVICE is None:
        DEVICE = make_device_class()
    tier, w, name, pre = task
    segs, pos, alpha, fixed = layouts(w, tier)[name]
    max_reads = 3 if tier == 'thorough' else 2
    stats = {'images': 0, 'cases': 0, 'engine_runs': 0, 'skipped_horizon': 0, 'capped_reads': 0, 'nontrivial': 0}
    hist = {}
    sieve = Sieve(PROP, MATCHERS)
    sample = None
    rest = len(pos) - len(pre)
    for combo in itertools.product(alpha, repeat=rest):
        data = dict(fixed)
        vals = [alpha[i] for i in pre] + list(combo)
        data.update(zip(pos, vals))
        image = R1.Image(w, segs, data)
        if WATCHDOGS[0] > 25:
            stats['aborted_after_watchdogs'] = 1
            break
        stats['images'] += 1
        for answers, r in answer_scripts(image, max_reads):
            if r.cause == R1.HORIZON:
                stats['skipped_horizon'] += 1
                continue
            if r.cause == R1.NEED_INPUT:
                stats['capped_reads'] += 1
                continue
            stats['cases'] += 1
            fs = features(r, w)
            if len(r.trace) >= 2:
                stats['nontrivial'] += 1
            for f in fs:
                hist[f] = hist.get(f, 0) + 1
            rr, n = check_case(image, answers, r, runs=RUNS_PAGED if name.startswith(PAGED_LAYOUTS) else RUNS)
            stats['engine_runs'] += n
            for x in rr:
                sieve.add(x)
            if sample is None and len(r.trace) >= (3 if len(pos) > 2 else 1):
                sample = {'image': image.to_json(), 'answers': answers, 'ref_trace': r.steps, 'cause': r.cause}
    return stats, hist, sieve.result(), sample


def catalog_rows():
    """the repository's own 'fast' test table: (name, [fj paths], w, use_stl, input bytes, expected output bytes)"""
    from fjv import REPO
    comp = {}
    for line in (REPO / 'tests' / 'tests_tables' / 'test_compile_fast.csv').read_text().splitlines():
        f = [x.strip() for x in line.split(',')]
        if len(f) >= 8:
            comp[f[0]] = ([REPO / p.strip() for p in f[1].split('|')], int(f[3]), f[6] == 'True')
    rows = []
    for line in (REPO / 'tests' / 'tests_tables' / 'test_run_fast.csv').read_text().splitlines():
        f = [x.strip() for x in line.split(',')]
        if len(f) >= 6 and f[0] in comp:
            if (f[2] and not (REPO / f[2]).exists()) or (f[3] and not (REPO / f[3]).exists()):
                continue  # an input that only exists after the repository's own test run (tests/compiled/...) in a fresh tree
            inp = (REPO / f[2]).read_bytes() if f[2] else b''
            out = (REPO / f[3]).read_bytes() if f[3] else b''
            if f[2] and f[4] != 'True':
                inp = inp.replace(b'\r\n', b'\n')
            if f[3] and f[5] != 'True':
                out = out.replace(b'\r\n', b'\n')
            rows.append((f[0],) + comp[f[0]] + (inp, out))
    return rows


def work_catalog(task):
    """real assembled programs (the repository's fast test table) on every engine vs R1 and the expected output"""
    global DEVICE
    from fjv.asm import assemble_files, load_image
    from fjv.enginecheck import scratch, compare
    from fjv.engines import make_device_class, run_engine
    from fjv.ref import machine as R1
    if DEVICE is None:
        DEVICE = make_device_class()
    _, tier, idx, wsel = task
    name, paths, w0, use_stl, inp, exp_out = catalog_rows()[idx]
    w = wsel or w0
    stats = {'images': 1, 'cases': 0, 'engine_runs': 0, 'skipped_horizon': 0, 'capped_reads': 0, 'nontrivial': 0}
    sieve = Sieve(PROP, MATCHERS)
    out = scratch() / f'cat-{idx}-{w}.fjm'
    try:
        assemble_files(paths, out, w=w, version=1, use_stl=use_stl, werror=False)
    except Exception as e:  # noqa (not every program fits every width)
        stats['catalog_not_assemblable'] = 1
        return stats, {}, sieve.result(), None
    image = load_image(out)
    answers = [(b >> i) & 1 for b in inp for i in range(8)] + ['E'] * 4
    horizon = 3000000 if tier == 'thorough' else 600000
    r = R1.run(image, answers, horizon)
    if r.cause in (R1.HORIZON, R1.NEED_INPUT):
        stats['skipped_horizon'] = 1
        return stats, {}, sieve.result(), None
    stats['cases'] = 1
    stats['nontrivial'] = 1
    bits = [b for k, b in r.io if k == 'w']
    got_out = bytes(sum(bits[8 * k + i] << i for i in range(8)) for k in range(len(bits) // 8))
    if w == w0 and got_out != exp_out:
        sieve.add({'kind': 'reference machine output differs from the expected output file', 'case': {'program': name, 'w': w},
                   'expected': exp_out[:200].decode('latin1'), 'observed': got_out[:200].decode('latin1'), 'ref': {'trace': []},
                   'summary': f'{name} w={w}: R1 output differs from tests/inout (R1 or the assembler is wrong)'})
    probe = sorted(r.mem)[::max(1, len(r.mem) // 400)]
    for engine, ring, kw, env in (('featured', 12, {}, {}), ('fast', None, {}, {}), ('fast', 5, {}, {}), ('native', None, {}, {}), ('native', 12, {}, {}),
                                  ('native-paged', None, {}, {}), ('native-paged', 3, {}, {}), ('native', None, {'flat_max_words': 300}, {}),
                                  ('native', 7, {'flat_max_words': 1001}, {}), ('native-measure', None, {}, {})):
        dev = DEVICE(answers)
        o = run_engine(out, engine, dev, ring=ring, extra_kwargs=kw, extra_env=env, timeout=120.0, probe=probe)
        stats['engine_runs'] += 1
        diffs = compare(r, o, ring, w)
        if diffs:
            sieve.add({'kind': 'engine-vs-machine (assembled program)', 'case': {'program': name, 'w': w, 'engine': engine, 'ring': ring, 'kwargs': kw,
                                                                                  'image': {'w': w}, 'answers': 'bits of the test input + EOF'},
                       'expected': {d[0]: (d[1] if d[0] != 'io_calls' else f'{len(d[1])} calls') for d in diffs},
                       'observed': {d[0]: (d[2] if d[0] != 'io_calls' else f'{len(d[2])} calls') for d in diffs}, 'ref': {'trace': r.trace[-5:]},
                       'summary': f'{name} w={w} engine={engine} ring={ring} {kw}: differs from the machine in {[d[0] for d in diffs]}'})
    return stats, {'catalog_program': 1, 'catalog_ops': r.ops}, sieve.result(), {'catalog_program': name, 'w': w, 'ops': r.ops, 'cause': r.cause}


def known_w64_top(record, sig):
    """F1: w=64 and an executed op (or its operands) reaches past bit 2^64 / word 2^58."""
    case = record['case']
    if case['image']['w'] != 64:
        return False
    top = 1 << 64
    for ip in record.get('ref', {}).get('trace', []):
        if ip + 128 > top:
            return True
    return False


MATCHERS = {'w64_op_straddles_top': known_w64_top}


def replay(args):
    global DEVICE
    from fjv.engines import make_device_class
    from fjv.ref import machine as R1
    from fjv.runner import install_watchdog
    install_watchdog()
    DEVICE = make_device_class()
    rec = load_replay(args.replay)
    case = rec['case']
    image = R1.Image.from_json(case['image'])
    r = R1.run(image, case['answers'], case.get('horizon', 64))
    recs, _ = check_case(image, case['answers'], r, max_records=10, runs=RUNS_PAGED)
    print('reference:', {'cause': r.cause, 'ops': r.ops, 'fault': r.fault, 'io': r.io, 'steps': r.steps})
    for x in recs:
        print('DIFF', x['case']['engine'], x['case']['ring'], 'expected', x['expected'], 'observed', x['observed'])
    if recs:
        print(f'VIOLATION property={PROP} replay={args.replay}')
        return 1
    print('replay: all engines agree with the machine definition')
    return 0


def main():
    args = parse_args(PROP)
    bind('plain')
    if args.replay:
        return replay(args)
    run = Run(PROP, 'exploration', args, MATCHERS)
    tasks = make_tasks(args.tier, args.only)
    if not args.only or args.only == 'catalog':
        n = len(catalog_rows())
        tasks = [('catalog', args.tier, i, None) for i in range(n)] + ([('catalog', args.tier, i, 32) for i in range(n)] if args.tier == 'thorough' else []) + \
            (tasks if not args.only else [])
    if not args.only or args.only == 'pages':
        import checks.C07 as C07
        tasks = (tasks if not args.only else []) + [('pages', args.tier, w, name, mul) for w in (32, 64) for name in C07.page_sets(w)
                                                    for mul in ((1, 11) if args.tier != 'thorough' else (1, 7, 11, 13))]
    total = {}
    hist = {}
    samples = []
    for stats, h, recs, sample in pmap(work, tasks, args.jobs):
        for k, v in stats.items():
            total[k] = total.get(k, 0) + v
        for k, v in h.items():
            hist[k] = hist.get(k, 0) + v
        run.merge(recs)
        if sample and len(samples) < 3:
            samples.append(sample)
    # vacuity guard: the enumeration must have reached every behaviour class
    need = ['cause:looping', 'cause:EOF', 'cause:ip<2w', 'cause:runtime-memory-error', 'unaligned_op', 'flips_own_op',
            'flips_own_jump_word', 'output', 'input']
    missing = [n for n in need if not hist.get(n)] if not args.only else []
    if missing:
        run.notes.append(f'vacuity guard: behaviour classes never reached: {missing}')
        print(f'CHECK-INTERNAL-ERROR vacuous exploration, missing {missing}', file=sys.stderr)
    cov = {
        'evaluations': total.get('engine_runs', 0),
        'distinct_nontrivial': total.get('nontrivial', 0),
        'rule': 'cases = (image, answer script) pairs: images are all assignments of the symbolic word alphabet to the '
                'words of each layout (pairwise distinct by construction), scripts are all 0/1/EOF answer prefixes the '
                'program consumes; non-trivial = the reference run terminates within the horizon and starts >= 2 ops; '
                'evaluations = engine runs (5 engine/ring variants per case)',
        'samples': samples,
        'images': total.get('images', 0),
        'cases': total.get('cases', 0),
        'skipped_beyond_horizon': total.get('skipped_horizon', 0),
        'capped_more_reads_than_bound': total.get('capped_reads', 0),
        'behaviour_histogram': hist,
        'assembled_catalog_programs_compared': hist.get('catalog_program', 0),
        'assembled_catalog_ops_executed_by_R1': hist.get('catalog_ops', 0),
        'bounds': {'widths': list(WIDTHS), 'horizon_ops': 64, 'max_reads': 3 if args.tier == 'thorough' else 2,
                   'layouts': sorted(set(k.split('-')[0] + ('-' + k.split('-')[1] if k.startswith('two') else '') for k in layouts(8, args.tier)))},
        'exhaustive': not missing,
        'traces_validated_against_impl': total.get('cases', 0),
    }
    code = run.finish(cov, assumptions=[
        'R1 (fjv/ref/machine.py) is the machine definition; it is cross-checked by all three engines on every case',
        'images are hand-packed version-0 .fjm files loaded through the real Reader',
        'enumerated images are at most 6 words / 64 ops; longer behaviour is covered only by the 33 assembled programs of the repository\'s fast test table (each on 10 engine/storage/ring configurations vs R1 and the expected output file)'])
    return 2 if missing and not code else code


if __name__ == '__main__':
    main_guard(main)
